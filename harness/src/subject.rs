//! Thin adapters between the harness's types and the crate under test (public API + verif hooks)
use crate::refmodel::{infosets, profile_to_named, Profile};
use crate::tree::Tree;
use cfr::{Game, GameError, Strategies};
use std::collections::BTreeMap;

pub type G = Game<String, String>;
pub type S<'a> = Strategies<'a, String, String>;

pub fn build(tree: &Tree) -> Result<G, GameError> {
    Game::from_root(tree.clone())
}

/// Inject a profile through the public import function
pub fn inject<'a>(game: &'a G, tree: &Tree, prof: &Profile) -> Result<S<'a>, cfr::StratError> {
    game.from_named(profile_to_named(tree, prof))
}

/// Read a profile back through the public named view. Actions the view omits get probability 0.
/// Returns Err(description) if the view is not a function of the tree's infosets.
pub fn read_profile(tree: &Tree, strats: &S) -> Result<Profile, String> {
    let infos = infosets(tree);
    let mut res: Profile = [BTreeMap::new(), BTreeMap::new()];
    for (pl, named) in strats.as_named().into_iter().enumerate() {
        for (info, acts) in named {
            let desc = infos[pl]
                .iter()
                .find(|d| &d.name == info)
                .ok_or_else(|| format!("named view lists unknown infoset {} for player {}", info, pl + 1))?;
            let mut probs = vec![0.0; desc.actions.len()];
            for (act, prob) in acts {
                let ind = desc
                    .actions
                    .iter()
                    .position(|a| a == act)
                    .ok_or_else(|| format!("named view lists unknown action {} in {}", act, info))?;
                probs[ind] = prob;
            }
            if res[pl].insert(info.clone(), probs).is_some() {
                return Err(format!("named view lists infoset {} twice", info));
            }
        }
        for desc in &infos[pl] {
            if !res[pl].contains_key(&desc.name) {
                return Err(format!("named view misses infoset {} of player {}", desc.name, pl + 1));
            }
        }
    }
    Ok(res)
}

pub fn profile_json(prof: &Profile) -> serde_json::Value {
    serde_json::json!([prof[0], prof[1]])
}

pub fn profile_from_json(val: &serde_json::Value) -> Profile {
    [0, 1].map(|pl| {
        val[pl]
            .as_object()
            .unwrap()
            .iter()
            .map(|(k, v)| {
                (
                    k.clone(),
                    v.as_array().unwrap().iter().map(|x| x.as_f64().unwrap()).collect(),
                )
            })
            .collect()
    })
}

