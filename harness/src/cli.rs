//! Shared machinery of the CLI checks (C15, C16, C17): file-level reference models of the two input
//! formats, generation of files FROM those models (so the model is by construction "the game exactly
//! as written in the file"), running the built binary, and reading what it prints.
//!
//! A file-level game is a `Tree` (payoffs of player one, the file's own infoset / action names) plus
//! the constant `sum` of the two players' payoffs: player two's payoff at a leaf is `sum - p1`.
use crate::refmodel::{infosets, Profile};
use crate::tree::Tree;
use serde_json::Value;
use std::collections::BTreeMap;
use std::io::Write;
use std::path::{Path, PathBuf};
use std::process::{Command, Stdio};

pub fn cli_path() -> PathBuf {
    PathBuf::from("/verif/target/cli/release/cfr")
}

#[derive(Debug, Clone)]
pub struct GameFile {
    pub label: String,
    pub text: String,
    /// "json" or "efg"
    pub format: &'static str,
    /// the game as written in the file: player one's payoffs, the file's names
    pub model: Tree,
    /// player one's payoff + player two's payoff at every leaf
    pub sum: f64,
    /// node order and names are already what the program's own ordering (sorted names) produces, so
    /// an in-process solve of `model` performs the same arithmetic as the program
    pub canonical_order: bool,
}

pub fn json_file(label: &str, tree: &Tree) -> Option<GameFile> {
    json_file_layout(label, tree, 0)
}

/// The extension a generated file is stored under: JSON files in layout 1 / 2 get one the program
/// does not know, so that it has to recognise the format from the contents.
pub fn file_ext(file: &GameFile) -> &'static str {
    if file.format == "json" && (file.label.ends_with("(leading white space)") || file.label.ends_with("(compact)")) {
        "game"
    } else {
        file.format
    }
}

/// layout 0: pretty-printed from the first byte; 1: the same after leading white space (newline,
/// blank, tab) and with a trailing newline; 2: compact, one line
pub fn json_file_layout(label: &str, tree: &Tree, layout: usize) -> Option<GameFile> {
    let dsl = tree.to_dsl()?;
    let text = match layout % 3 {
        0 => serde_json::to_string_pretty(&dsl).unwrap(),
        1 => format!("\n \t{}\n", serde_json::to_string_pretty(&dsl).unwrap()),
        _ => serde_json::to_string(&dsl).unwrap(),
    };
    let label = match layout % 3 {
        0 => label.to_string(),
        1 => format!("{} (leading white space)", label),
        _ => format!("{} (compact)", label),
    };
    Some(GameFile { label, text, format: "json", model: tree.clone(), sum: 0.0, canonical_order: true })
}

#[derive(Debug, Clone, Copy, PartialEq)]
pub struct EfgStyle {
    /// the constant both payoffs add up to
    pub sum: f64,
    /// move part of the payoffs onto interior nodes (outcomes attached to decision / chance nodes)
    pub interior: bool,
    /// leaves with the same payoffs share one outcome number; a repeated interior outcome is
    /// referenced by number only
    pub share_outcomes: bool,
    /// infosets without a name (the program must fall back to the number)
    pub unnamed_infosets: bool,
    /// chance probabilities as unreduced fractions (2/8) instead of reduced ones (1/4)
    pub unreduced: bool,
    /// list the actions of every infoset in reverse name order
    pub reverse_actions: bool,
    /// name an infoset only at the first of its nodes (the others carry the number alone)
    pub partly_named: bool,
}

/// a name inside Gambit's double quotes
pub fn efg_escape(name: &str) -> String {
    name.replace('\\', "\\\\").replace('"', "\\\"")
}

impl EfgStyle {
    pub const PLAIN: EfgStyle = EfgStyle { sum: 0.0, interior: false, share_outcomes: false, unnamed_infosets: false, unreduced: false, reverse_actions: false, partly_named: false };

    pub fn all() -> Vec<EfgStyle> {
        let mut res = vec![EfgStyle::PLAIN];
        for sum in [2.0, -3.0] {
            res.push(EfgStyle { sum, ..EfgStyle::PLAIN });
        }
        res.push(EfgStyle { interior: true, ..EfgStyle::PLAIN });
        res.push(EfgStyle { interior: true, share_outcomes: true, sum: 2.0, ..EfgStyle::PLAIN });
        res.push(EfgStyle { share_outcomes: true, ..EfgStyle::PLAIN });
        res.push(EfgStyle { unnamed_infosets: true, ..EfgStyle::PLAIN });
        res.push(EfgStyle { unreduced: true, ..EfgStyle::PLAIN });
        res.push(EfgStyle { reverse_actions: true, ..EfgStyle::PLAIN });
        res.push(EfgStyle { partly_named: true, ..EfgStyle::PLAIN });
        res.push(EfgStyle { sum: -3.0, interior: true, share_outcomes: true, unnamed_infosets: true, unreduced: true, reverse_actions: true, partly_named: false });
        res
    }

    pub fn name(&self) -> String {
        format!(
            "sum{}{}{}{}{}{}{}",
            self.sum,
            if self.interior { "+interior" } else { "" },
            if self.share_outcomes { "+shared" } else { "" },
            if self.unnamed_infosets { "+unnamed" } else { "" },
            if self.unreduced { "+unreduced" } else { "" },
            if self.reverse_actions { "+reversed" } else { "" },
            if self.partly_named { "+partly-named" } else { "" }
        )
    }
}

fn gcd(a: u64, b: u64) -> u64 {
    if b == 0 {
        a
    } else {
        gcd(b, a % b)
    }
}

/// a number the Gambit grammar accepts (no exponent)
pub fn efg_num(val: f64) -> String {
    if val == val.trunc() && val.abs() < 1e15 {
        format!("{}", val as i64)
    } else {
        let s = format!("{}", val);
        if s.contains('e') {
            format!("{:.30}", val).trim_end_matches('0').to_string()
        } else {
            s
        }
    }
}

struct EfgWriter {
    style: EfgStyle,
    out: String,
    /// infoset numbers per player / for chance, by label
    numbers: [BTreeMap<String, u64>; 3],
    next_outcome: u64,
    /// payoff pair (bits) -> outcome number, for shared outcomes
    outcomes: BTreeMap<(u64, u64), u64>,
    /// interior increments already spelled out
    interior_seen: BTreeMap<u64, u64>,
    anon_chance: u64,
    /// (player, infoset number) already written with its name
    named: std::collections::BTreeSet<(usize, u64)>,
}

impl EfgWriter {
    fn number(&mut self, slot: usize, label: &str) -> u64 {
        let next = self.numbers[slot].len() as u64 + 1;
        *self.numbers[slot].entry(label.to_string()).or_insert(next)
    }

    /// returns the model subtree (names as the file gives them)
    fn node(&mut self, node: &Tree, carried: f64, depth: usize) -> Tree {
        // an interior increment (delta to player one, -delta to player two) on every interior level,
        // the root included (so that outcomes also sit on nodes below nodes that carry one)
        let delta: f64 = if self.style.interior { [1.0, -0.5, 0.25][depth % 3] } else { 0.0 };
        // (this parser's grammar gives outcomes of chance nodes no name)
        let interior = |this: &mut EfgWriter, named: bool| -> String {
            if delta == 0.0 {
                return "0".to_string();
            }
            if this.style.share_outcomes {
                if let Some(num) = this.interior_seen.get(&delta.to_bits()) {
                    // referenced by number only
                    return format!("{}", num);
                }
            }
            this.next_outcome += 1;
            let num = this.next_outcome;
            this.interior_seen.insert(delta.to_bits(), num);
            if named {
                format!("{} \"step {}\" {{ {}, {} }}", num, num, efg_num(delta), efg_num(-delta))
            } else {
                format!("{} {{ {}, {} }}", num, efg_num(delta), efg_num(-delta))
            }
        };
        match node {
            Tree::T(pay) => {
                let one = pay - carried;
                let two = self.style.sum - pay + carried;
                let key = (one.to_bits(), two.to_bits());
                let num = match (self.style.share_outcomes, self.outcomes.get(&key)) {
                    (true, Some(num)) => *num,
                    _ => {
                        self.next_outcome += 1;
                        self.outcomes.insert(key, self.next_outcome);
                        self.next_outcome
                    }
                };
                self.out.push_str(&format!("t \"\" {} \"leaf {}\" {{ {}, {} }}\n", num, num, efg_num(one), efg_num(two)));
                Tree::T(*pay)
            }
            Tree::C(info, outs) => {
                let label = match info {
                    Some(label) => label.clone(),
                    None => {
                        self.anon_chance += 1;
                        format!("#anon{}", self.anon_chance)
                    }
                };
                let num = self.number(2, &label);
                // exact fractions: the weights of the universes are multiples of 1/8 or integers
                let scaled: Vec<u64> = outs.iter().map(|(w, _)| (w * 8.0).round() as u64).collect();
                let exact = outs.iter().zip(scaled.iter()).all(|((w, _), s)| (*s as f64) / 8.0 == *w && *s > 0);
                let total: u64 = scaled.iter().sum();
                let probs: Vec<String> = outs
                    .iter()
                    .zip(scaled.iter())
                    .map(|((w, _), s)| {
                        if exact {
                            let g = if self.style.unreduced { 1 } else { gcd(*s, total) };
                            if total / g == 1 {
                                "1".to_string()
                            } else {
                                format!("{}/{}", s / g, total / g)
                            }
                        } else {
                            let sum: f64 = outs.iter().map(|(w, _)| w).sum();
                            efg_num(w / sum)
                        }
                    })
                    .collect();
                let acts: Vec<String> = probs.iter().enumerate().map(|(i, p)| format!("\"o{:02}\" {}", i, p)).collect();
                let outcome = interior(self, false);
                self.out.push_str(&format!("c \"\" {} \"chance {}\" {{ {} }} {}\n", num, num, acts.join(" "), outcome));
                let subs: Vec<(f64, Tree)> = outs.iter().map(|(w, next)| (*w, self.node(next, carried + delta, depth + 1))).collect();
                Tree::C(info.clone(), subs)
            }
            Tree::P(player, info, acts) => {
                let num = self.number(*player, info);
                let name = if self.style.unnamed_infosets { format!("{}", num) } else { info.clone() };
                let mut order: Vec<usize> = (0..acts.len()).collect();
                if self.style.reverse_actions {
                    order.reverse();
                }
                let names: Vec<String> = order.iter().map(|i| format!("\"{}\"", efg_escape(&acts[*i].0))).collect();
                let outcome = interior(self, true);
                let repeat = !self.named.insert((*player, num));
                if self.style.unnamed_infosets || (self.style.partly_named && repeat) {
                    self.out.push_str(&format!("p \"\" {} {} {{ {} }} {}\n", player + 1, num, names.join(" "), outcome));
                } else {
                    self.out.push_str(&format!("p \"\" {} {} \"{}\" {{ {} }} {}\n", player + 1, num, efg_escape(&name), names.join(" "), outcome));
                }
                let mut subs: Vec<(String, Tree)> = Vec::new();
                for i in &order {
                    subs.push((acts[*i].0.clone(), self.node(&acts[*i].1, carried + delta, depth + 1)));
                }
                Tree::P(*player, name, subs)
            }
        }
    }
}

pub fn efg_file(label: &str, tree: &Tree, style: EfgStyle) -> GameFile {
    let mut writer = EfgWriter { style, out: String::new(), numbers: Default::default(), next_outcome: 0, outcomes: BTreeMap::new(), interior_seen: BTreeMap::new(), anon_chance: 0, named: Default::default() };
    writer.out.push_str(&format!("EFG 2 R \"{}\" {{ \"one\" \"two\" }}\n", label.replace('"', "'")));
    let model = writer.node(tree, 0.0, 0);
    let canonical_order = names_sorted(&model);
    GameFile { label: format!("{}:{}", label, style.name()), text: writer.out, format: "efg", model, sum: style.sum, canonical_order }
}

/// every action list of the tree is in ascending name order (the order the program itself uses)
pub fn names_sorted(tree: &Tree) -> bool {
    let mut ok = true;
    tree.walk(&mut |n| {
        if let Tree::P(_, _, acts) = n {
            ok &= acts.windows(2).all(|w| w[0].0 < w[1].0);
        }
    });
    ok
}

#[derive(Debug, Clone)]
pub struct CliOut {
    pub code: Option<i32>,
    pub stdout: String,
    pub stderr: String,
    pub timed_out: bool,
}

/// Run the program. `stdin`: text piped in (None: no stdin). Killed after `limit` seconds.
pub fn run_cli(args: &[String], stdin: Option<&str>, limit: u64) -> CliOut {
    let mut child = Command::new(cli_path())
        .args(args)
        .stdin(if stdin.is_some() { Stdio::piped() } else { Stdio::null() })
        .stdout(Stdio::piped())
        .stderr(Stdio::piped())
        .env("RUST_BACKTRACE", "0")
        .spawn()
        .expect("spawn the cfr binary");
    if let Some(text) = stdin {
        let mut pipe = child.stdin.take().unwrap();
        let text = text.to_string();
        std::thread::spawn(move || {
            let _ = pipe.write_all(text.as_bytes());
        });
    }
    let start = std::time::Instant::now();
    let mut timed_out = false;
    loop {
        match child.try_wait() {
            Ok(Some(_)) => break,
            Ok(None) => {
                if start.elapsed().as_secs() >= limit {
                    let _ = child.kill();
                    timed_out = true;
                    break;
                }
                std::thread::sleep(std::time::Duration::from_millis(2));
            }
            Err(_) => break,
        }
    }
    let out = child.wait_with_output().expect("wait for the cfr binary");
    CliOut { code: out.status.code(), stdout: String::from_utf8_lossy(&out.stdout).to_string(), stderr: String::from_utf8_lossy(&out.stderr).to_string(), timed_out }
}

#[derive(Debug, Clone)]
pub struct Printed {
    pub regret: f64,
    pub utils: [f64; 2],
    pub regrets: [f64; 2],
    /// per player: infoset -> action -> probability, as printed
    pub strategies: [BTreeMap<String, BTreeMap<String, f64>>; 2],
}

pub fn parse_output(text: &str) -> Result<Printed, String> {
    let val: Value = serde_json::from_str(text.trim()).map_err(|e| format!("stdout is not one JSON value: {}", e))?;
    let obj = val.as_object().ok_or("stdout is not a JSON object")?;
    let num = |key: &str| obj.get(key).and_then(|v| v.as_f64()).ok_or_else(|| format!("missing or non-numeric field {}", key));
    let strat = |key: &str| -> Result<BTreeMap<String, BTreeMap<String, f64>>, String> {
        let map = obj.get(key).and_then(|v| v.as_object()).ok_or_else(|| format!("missing field {}", key))?;
        let mut res = BTreeMap::new();
        for (info, acts) in map {
            let acts = acts.as_object().ok_or_else(|| format!("{}.{} is not an object", key, info))?;
            let mut inner = BTreeMap::new();
            for (act, prob) in acts {
                inner.insert(act.clone(), prob.as_f64().ok_or_else(|| format!("{}.{}.{} is not a number", key, info, act))?);
            }
            res.insert(info.clone(), inner);
        }
        Ok(res)
    };
    Ok(Printed {
        regret: num("regret")?,
        utils: [num("player_one_utility")?, num("player_two_utility")?],
        regrets: [num("player_one_regret")?, num("player_two_regret")?],
        strategies: [strat("player_one_strategy")?, strat("player_two_strategy")?],
    })
}

/// The printed strategies as a profile of the file-level model; Err names the first defect
/// (missing / extra infoset, illegal action, non-positive probability, sum != 1)
pub fn printed_profile(model: &Tree, printed: &Printed) -> Result<Profile, String> {
    let infos = infosets(model);
    let mut res: Profile = [BTreeMap::new(), BTreeMap::new()];
    for pl in 0..2 {
        for info in printed.strategies[pl].keys() {
            if !infos[pl].iter().any(|d| &d.name == info) {
                return Err(format!("player {} strategy lists infoset {:?} which the file does not have", pl + 1, info));
            }
        }
        for desc in &infos[pl] {
            let acts = printed.strategies[pl].get(&desc.name).ok_or_else(|| format!("player {} strategy misses infoset {:?}", pl + 1, desc.name))?;
            let mut probs = vec![0.0; desc.actions.len()];
            for (act, prob) in acts {
                let ind = desc.actions.iter().position(|a| a == act).ok_or_else(|| format!("player {} infoset {:?} lists action {:?} which the file does not have", pl + 1, desc.name, act))?;
                if !(*prob > 0.0) || !prob.is_finite() {
                    return Err(format!("player {} infoset {:?} action {:?} has probability {} (zero-probability actions must be omitted)", pl + 1, desc.name, act, prob));
                }
                probs[ind] = *prob;
            }
            let total: f64 = probs.iter().sum();
            if !((total - 1.0).abs() <= 1e-9) {
                return Err(format!("player {} infoset {:?} probabilities {:?} sum to {}", pl + 1, desc.name, acts, total));
            }
            res[pl].insert(desc.name.clone(), probs);
        }
    }
    Ok(res)
}

/// a scratch directory for game files, under <verif root>/work/<prop>
pub fn work_dir(prop: &str) -> PathBuf {
    let dir = crate::framework::verif_root().join("work").join(format!("{}-{}", prop, std::process::id()));
    let _ = std::fs::create_dir_all(&dir);
    dir
}

pub fn write_file(dir: &Path, name: &str, text: &str) -> String {
    let path = dir.join(name);
    std::fs::write(&path, text).expect("write game file");
    path.to_string_lossy().to_string()
}

pub fn sanitize(label: &str) -> String {
    label.chars().map(|c| if c.is_ascii_alphanumeric() || c == '-' { c } else { '_' }).take(60).collect()
}

/// the games the CLI checks generate files from: the tiny universe and curated families
pub fn cli_games(thorough: bool) -> Vec<(String, Tree)> {
    use crate::universe::{families, fill_distinct, skeletons, Bounds};
    let bounds = Bounds { max_internal: 2, max_arity: 3, max_leaves: 5, chance_infosets: true, degenerate: true };
    let mut res: Vec<(String, Tree)> = skeletons(&bounds).iter().enumerate().map(|(i, s)| (format!("u{}", i), fill_distinct(s, i))).collect();
    if !thorough {
        res = res.into_iter().step_by(4).collect();
    }
    for (name, tree) in families() {
        if ["matching_pennies", "dominated_action", "kuhn", "no_decision_p2", "single_terminal", "deep_chain_3", "wide_shared_3", "rare_chance_1e1", "two_level_own_chance", "two_level_own_p2", "varying_visits", "hidden_then_own"].contains(&name.as_str()) {
            res.push((name, tree));
        }
    }
    res.extend(crate::checks::c06::collision_games().into_iter().filter(|(n, _)| n == "two_level_shared" || n == "shared_chance_below" || n == "shared_then_own_3"));
    // names that need escaping in both formats (quotes, backslashes), sorted by their real spelling
    {
        use crate::tree::{p, t};
        res.push((
            "escaped_names".into(),
            p(0, "info \"one\"", vec![("Raise", p(1, "back\\slash", vec![("a\\b", t(1.0)), ("say \"hi\"", t(-1.0))])), ("say \"pass\"", p(1, "back\\slash", vec![("a\\b", t(-2.0)), ("say \"hi\"", t(0.5))]))]),
        ));
    }
    res
}
