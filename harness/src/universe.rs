//! Bounded-exhaustive universes of game trees (E-INPUT).
//!
//! `skeletons(bounds)` enumerates *every* tree of the grammar
//!
//! ```text
//! node := T | C(cinfo, [(w, node)]^k) | P(player, info, [(act, node)]^k)      1 <= k <= max_arity
//! ```
//!
//! with at most `max_internal` internal nodes and `max_leaves` leaves, every assignment of node
//! kinds {chance, player one, player two}, every weight vector of the per-arity alphabet, every
//! partition of the chance nodes and of each player's nodes into infosets (restricted-growth
//! strings: each partition exactly once) that the *reference validator* accepts. Payoffs are filled
//! in afterwards by `fill_payoffs` (every assignment over an alphabet).
use crate::refmodel::ref_validate;
use crate::tree::Tree;

#[derive(Debug, Clone)]
pub struct Bounds {
    pub max_internal: usize,
    pub max_arity: usize,
    pub max_leaves: usize,
    /// include trees in which chance nodes share an infoset
    pub chance_infosets: bool,
    /// include nodes with a single child
    pub degenerate: bool,
}

#[derive(Debug, Clone)]
enum Shape {
    Leaf,
    Node(usize, Vec<Shape>),
}

fn compositions(total: usize, parts: usize) -> Vec<Vec<usize>> {
    if parts == 0 {
        return if total == 0 { vec![vec![]] } else { vec![] };
    }
    let mut res = Vec::new();
    for first in 0..=total {
        for mut rest in compositions(total - first, parts - 1) {
            let mut comp = vec![first];
            comp.append(&mut rest);
            res.push(comp);
        }
    }
    res
}

fn shapes_exact(internal: usize, bounds: &Bounds, memo: &mut Vec<Option<Vec<Shape>>>) -> Vec<Shape> {
    if let Some(res) = &memo[internal] {
        return res.clone();
    }
    let mut res = Vec::new();
    if internal == 0 {
        res.push(Shape::Leaf);
    } else {
        let min_arity = if bounds.degenerate { 1 } else { 2 };
        for kind in 0..3 {
            for arity in min_arity..=bounds.max_arity {
                for comp in compositions(internal - 1, arity) {
                    let options: Vec<Vec<Shape>> = comp
                        .iter()
                        .map(|part| shapes_exact(*part, bounds, memo))
                        .collect();
                    let mut idx = vec![0usize; arity];
                    'outer: loop {
                        res.push(Shape::Node(
                            kind,
                            idx.iter().zip(options.iter()).map(|(i, o)| o[*i].clone()).collect(),
                        ));
                        let mut pos = 0;
                        loop {
                            if pos == arity {
                                break 'outer;
                            }
                            idx[pos] += 1;
                            if idx[pos] < options[pos].len() {
                                break;
                            }
                            idx[pos] = 0;
                            pos += 1;
                        }
                    }
                }
            }
        }
    }
    memo[internal] = Some(res.clone());
    res
}

fn shape_leaves(shape: &Shape) -> usize {
    match shape {
        Shape::Leaf => 1,
        Shape::Node(_, kids) => kids.iter().map(shape_leaves).sum(),
    }
}

pub const ACTS: [&str; 4] = ["a", "b", "c", "d"];

/// the weight alphabet per arity (un-normalised on purpose; dyadic after normalisation)
pub fn weight_alphabet(arity: usize) -> Vec<Vec<f64>> {
    match arity {
        1 => vec![vec![1.0], vec![0.5]],
        2 => vec![vec![1.0, 1.0], vec![1.0, 3.0]],
        3 => vec![vec![2.0, 1.0, 1.0], vec![0.25, 0.25, 0.5]],
        4 => vec![vec![1.0, 1.0, 1.0, 1.0], vec![4.0, 2.0, 1.0, 1.0]],
        _ => panic!("arity"),
    }
}

/// Convert a shape to a tree with unique infosets everywhere, NaN payoffs, first weight vector
fn shape_to_tree(shape: &Shape, counter: &mut usize) -> Tree {
    match shape {
        Shape::Leaf => Tree::T(f64::NAN),
        Shape::Node(kind, kids) => {
            let id = *counter;
            *counter += 1;
            let subs: Vec<Tree> = kids.iter().map(|k| shape_to_tree(k, counter)).collect();
            if *kind == 0 {
                let ws = &weight_alphabet(subs.len())[0];
                Tree::C(None, ws.iter().copied().zip(subs).collect())
            } else {
                Tree::P(
                    kind - 1,
                    format!("n{}", id),
                    subs.into_iter()
                        .enumerate()
                        .map(|(i, s)| (ACTS[i].to_string(), s))
                        .collect(),
                )
            }
        }
    }
}

/// all restricted growth strings of length n (set partitions), each as block index per element
pub fn set_partitions(n: usize) -> Vec<Vec<usize>> {
    fn rec(n: usize, cur: &mut Vec<usize>, max: usize, out: &mut Vec<Vec<usize>>) {
        if cur.len() == n {
            out.push(cur.clone());
            return;
        }
        for b in 0..=max {
            cur.push(b);
            rec(n, cur, if b == max { max + 1 } else { max }, out);
            cur.pop();
        }
    }
    let mut out = Vec::new();
    rec(n, &mut Vec::new(), 0, &mut out);
    out
}

fn assign_variants(base: &Tree, bounds: &Bounds, out: &mut Vec<Tree>) {
    // collect chance nodes (preorder) and their arities
    let mut chance_arity = Vec::new();
    let mut player_nodes: [usize; 2] = [0, 0];
    base.walk(&mut |n| match n {
        Tree::C(_, outs) => chance_arity.push(outs.len()),
        Tree::P(num, _, _) => player_nodes[*num] += 1,
        _ => {}
    });
    // weight choices per chance node
    let weight_opts: Vec<Vec<Vec<f64>>> = chance_arity.iter().map(|a| weight_alphabet(*a)).collect();
    let mut widx = vec![0usize; chance_arity.len()];
    loop {
        // chance infoset partitions: blocks of size one stay unlabelled (None)
        let cparts = if bounds.chance_infosets {
            set_partitions(chance_arity.len())
        } else {
            vec![(0..chance_arity.len()).collect()]
        };
        for cpart in &cparts {
            let mut sizes = vec![0usize; chance_arity.len() + 1];
            for b in cpart {
                sizes[*b] += 1;
            }
            for p1 in set_partitions(player_nodes[0]) {
                for p2 in set_partitions(player_nodes[1]) {
                    let mut tree = base.clone();
                    let (mut ci, mut pi) = (0usize, [0usize; 2]);
                    tree.walk_mut(&mut |n| match n {
                        Tree::C(info, outs) => {
                            let ws = &weight_opts[ci][widx[ci]];
                            for ((w, _), nw) in outs.iter_mut().zip(ws.iter()) {
                                *w = *nw;
                            }
                            *info = if sizes[cpart[ci]] >= 2 {
                                Some(format!("c{}", cpart[ci]))
                            } else {
                                None
                            };
                            ci += 1;
                        }
                        Tree::P(num, info, _) => {
                            let part = if *num == 0 { &p1 } else { &p2 };
                            *info = format!("i{}", part[pi[*num]]);
                            pi[*num] += 1;
                        }
                        _ => {}
                    });
                    if ref_validate_structure(&tree) {
                        out.push(tree);
                    }
                }
            }
        }
        // next weight assignment
        let mut pos = 0;
        loop {
            if pos == widx.len() {
                return;
            }
            widx[pos] += 1;
            if widx[pos] < weight_opts[pos].len() {
                break;
            }
            widx[pos] = 0;
            pos += 1;
        }
    }
}

/// valid except for the NaN payoff placeholders
fn ref_validate_structure(tree: &Tree) -> bool {
    let rules = ref_validate(tree);
    rules.iter().all(|r| *r == crate::refmodel::Rule::NonFinitePayoff)
}

/// Every valid skeleton (payoffs are NaN placeholders) within the bounds
pub fn skeletons(bounds: &Bounds) -> Vec<Tree> {
    let mut memo = vec![None; bounds.max_internal + 1];
    let mut out = Vec::new();
    for internal in 0..=bounds.max_internal {
        for shape in shapes_exact(internal, bounds, &mut memo) {
            if shape_leaves(&shape) > bounds.max_leaves {
                continue;
            }
            let mut counter = 0;
            let base = shape_to_tree(&shape, &mut counter);
            assign_variants(&base, bounds, &mut out);
        }
    }
    out
}

/// The tree with infoset labels and chance weights erased: what the frontier split of the
/// multi-threaded solvers can depend on besides the strategies
pub fn shape_signature(tree: &Tree) -> String {
    match tree {
        Tree::T(_) => "t".to_string(),
        Tree::C(_, outs) => format!("C[{}]", outs.iter().map(|(_, n)| shape_signature(n)).collect::<Vec<_>>().join(" ")),
        Tree::P(num, _, acts) => format!("P{}[{}]", num + 1, acts.iter().map(|(_, n)| shape_signature(n)).collect::<Vec<_>>().join(" ")),
    }
}

/// number of distinct infoset labels (players and chance) of a tree
pub fn num_labels(tree: &Tree) -> usize {
    let mut set = std::collections::BTreeSet::new();
    tree.walk(&mut |n| match n {
        Tree::C(Some(info), _) => {
            set.insert(format!("c:{}", info));
        }
        Tree::P(num, info, _) => {
            set.insert(format!("{}:{}", num, info));
        }
        _ => {}
    });
    set.len()
}

/// For every shape signature of `skels` the labelling with the most and the one with the fewest
/// infosets (first weights variant met): the representatives used where the cost per game is high
pub fn shape_representatives(skels: &[Tree]) -> Vec<Tree> {
    let mut best: std::collections::BTreeMap<String, (usize, usize, usize, usize)> = std::collections::BTreeMap::new();
    for (ind, skel) in skels.iter().enumerate() {
        let labels = num_labels(skel);
        let ent = best.entry(shape_signature(skel)).or_insert((ind, labels, ind, labels));
        if labels > ent.1 {
            ent.0 = ind;
            ent.1 = labels;
        }
        if labels < ent.3 {
            ent.2 = ind;
            ent.3 = labels;
        }
    }
    let mut picks = std::collections::BTreeSet::new();
    for (hi, _, lo, _) in best.values() {
        picks.insert(*hi);
        picks.insert(*lo);
    }
    picks.into_iter().map(|i| skels[i].clone()).collect()
}

/// Every raw shape tree (unique infosets, first weights, NaN payoffs) within the bounds; used by the
/// C11 universe which assigns its own (possibly invalid) labels
pub fn raw_shapes(bounds: &Bounds) -> Vec<Tree> {
    let mut memo = vec![None; bounds.max_internal + 1];
    let mut out = Vec::new();
    for internal in 0..=bounds.max_internal {
        for shape in shapes_exact(internal, bounds, &mut memo) {
            if shape_leaves(&shape) > bounds.max_leaves {
                continue;
            }
            let mut counter = 0;
            out.push(shape_to_tree(&shape, &mut counter));
        }
    }
    out
}

/// Call `func` with every assignment of `alphabet` payoffs to the leaves of `skel`
pub fn fill_payoffs(skel: &Tree, alphabet: &[f64], func: &mut impl FnMut(&Tree)) {
    let leaves = skel.num_leaves();
    let mut idx = vec![0usize; leaves];
    loop {
        let mut tree = skel.clone();
        let mut li = 0;
        tree.walk_mut(&mut |n| {
            if let Tree::T(pay) = n {
                *pay = alphabet[idx[li]];
                li += 1;
            }
        });
        func(&tree);
        let mut pos = 0;
        loop {
            if pos == leaves {
                return;
            }
            idx[pos] += 1;
            if idx[pos] < alphabet.len() {
                break;
            }
            idx[pos] = 0;
            pos += 1;
        }
    }
}

/// The payoff alphabet used for a skeleton with this many leaves (keeps |alphabet|^leaves bounded)
pub fn payoff_alphabet(leaves: usize, thorough: bool) -> &'static [f64] {
    if thorough {
        match leaves {
            0..=3 => &[-2.0, -1.0, 0.0, 1.0, 3.0],
            4..=5 => &[-2.0, 0.0, 1.0],
            _ => &[-1.0, 2.0],
        }
    } else {
        match leaves {
            0..=4 => &[-2.0, 0.0, 1.0],
            _ => &[-1.0, 2.0],
        }
    }
}

/// One fixed, asymmetric payoff assignment (distinct values, mixed signs) for skeleton-level checks
pub fn fill_distinct(skel: &Tree, variant: usize) -> Tree {
    const VALS: [[f64; 12]; 3] = [
        [1.0, -2.0, 0.5, 3.0, -1.0, 0.0, 2.0, -3.0, 1.5, -0.5, 4.0, -4.0],
        [-1.0, 2.0, 0.0, -3.0, 1.0, 0.5, -2.0, 3.0, -1.5, 0.25, -4.0, 4.0],
        [0.0, 0.0, 1.0, 1.0, -1.0, -1.0, 2.0, 0.0, 0.0, 1.0, -2.0, 2.0],
    ];
    let mut tree = skel.clone();
    let mut li = 0;
    tree.walk_mut(&mut |n| {
        if let Tree::T(pay) = n {
            *pay = VALS[variant % 3][li % 12];
            li += 1;
        }
    });
    tree
}

// ---------------------------------------------------------------------------------------------
// curated adversarial families (finite parameter ranges, enumerated completely)
// ---------------------------------------------------------------------------------------------

/// full k-ary alternating tree of the given depth, perfect information, payoffs from a fixed
/// integer hash of the leaf index
pub fn kary_alternating(arity: usize, depth: usize) -> Tree {
    fn rec(arity: usize, depth: usize, player: usize, path: &mut Vec<usize>, leaf: &mut u64) -> Tree {
        if depth == 0 {
            *leaf += 1;
            let h = leaf.wrapping_mul(0x9E37_79B9_7F4A_7C15) >> 59;
            Tree::T(h as f64 - 16.0)
        } else {
            let name: String = path.iter().map(|i| ACTS[*i]).collect::<Vec<_>>().join("");
            let acts = (0..arity)
                .map(|i| {
                    path.push(i);
                    let sub = rec(arity, depth - 1, 1 - player, path, leaf);
                    path.pop();
                    (ACTS[i].to_string(), sub)
                })
                .collect();
            Tree::P(player, format!("h{}", name), acts)
        }
    }
    rec(arity, depth, 0, &mut Vec::new(), &mut 0)
}

/// deep alternating chain: at each level the mover can stop (payoff) or continue
pub fn deep_chain(depth: usize) -> Tree {
    fn rec(level: usize, depth: usize) -> Tree {
        if level == depth {
            Tree::T(if level % 2 == 0 { 1.0 } else { -1.0 })
        } else {
            let stop = ((level * 7) % 5) as f64 - 2.0;
            Tree::P(
                level % 2,
                format!("d{}", level),
                vec![
                    ("stop".to_string(), Tree::T(stop)),
                    ("go".to_string(), rec(level + 1, depth)),
                ],
            )
        }
    }
    rec(0, depth)
}

/// one player-two infoset shared by `width` nodes below a player-one root
pub fn wide_shared(width: usize) -> Tree {
    let acts = (0..width)
        .map(|i| {
            (
                format!("r{}", i),
                Tree::P(
                    1,
                    "z".to_string(),
                    vec![
                        ("l".to_string(), Tree::T(((i * 3) % 7) as f64 - 3.0)),
                        ("r".to_string(), Tree::T(2.0 - ((i * 5) % 6) as f64)),
                    ],
                ),
            )
        })
        .collect::<Vec<_>>();
    if width == 1 {
        acts.into_iter().next().unwrap().1
    } else {
        Tree::P(0, "root".to_string(), acts)
    }
}

/// chance root with a rare outcome (1 : 10^k) that matters
pub fn rare_chance(k: u32) -> Tree {
    let big = 10f64.powi(k as i32);
    Tree::C(
        None,
        vec![
            (
                big,
                Tree::P(
                    0,
                    "x".to_string(),
                    vec![("a".to_string(), Tree::T(1.0)), ("b".to_string(), Tree::T(0.0))],
                ),
            ),
            (
                1.0,
                Tree::P(
                    0,
                    "x".to_string(),
                    vec![
                        ("a".to_string(), Tree::T(-big * 2.0)),
                        ("b".to_string(), Tree::T(0.0)),
                    ],
                ),
            ),
        ],
    )
}

pub fn matching_pennies() -> Tree {
    use crate::tree::{p, t};
    p(
        0,
        "x",
        vec![
            ("h", p(1, "z", vec![("h", t(1.0)), ("t", t(-1.0))])),
            ("t", p(1, "z", vec![("h", t(-1.0)), ("t", t(1.0))])),
        ],
    )
}

pub fn dominated_action() -> Tree {
    use crate::tree::{p, t};
    p(
        0,
        "x",
        vec![
            ("good", p(1, "z", vec![("l", t(2.0)), ("r", t(1.0))])),
            ("bad", p(1, "z", vec![("l", t(-3.0)), ("r", t(-4.0))])),
            ("mid", p(1, "z", vec![("l", t(0.0)), ("r", t(3.0))])),
        ],
    )
}

/// Kuhn poker with three cards (chance deals, shared chance infosets not used)
pub fn kuhn() -> Tree {
    use crate::tree::{p, t};
    let mut deals = Vec::new();
    for c1 in 0..3usize {
        for c2 in 0..3usize {
            if c1 == c2 {
                continue;
            }
            let win = if c1 > c2 { 1.0 } else { -1.0 };
            let i1 = format!("{}", c1);
            let i1b = format!("{}cb", c1);
            let i2c = format!("{}c", c2);
            let i2b = format!("{}b", c2);
            let node = p(
                0,
                &i1,
                vec![
                    (
                        "bet",
                        p(1, &i2b, vec![("call", t(2.0 * win)), ("fold", t(1.0))]),
                    ),
                    (
                        "check",
                        p(
                            1,
                            &i2c,
                            vec![
                                (
                                    "bet",
                                    p(0, &i1b, vec![("call", t(2.0 * win)), ("fold", t(-1.0))]),
                                ),
                                ("check", t(win)),
                            ],
                        ),
                    ),
                ],
            );
            deals.push((1.0, node));
        }
    }
    Tree::C(None, deals)
}

/// a game where player two never decides
pub fn no_decision_p2() -> Tree {
    use crate::tree::{c, p, t};
    c(
        None,
        vec![
            (1.0, p(0, "x", vec![("a", t(1.0)), ("b", t(-1.0))])),
            (3.0, p(0, "y", vec![("a", t(-2.0)), ("b", t(0.5))])),
        ],
    )
}

/// a root (chance with unequal weights, or player two) above two nodes of one player-one infoset A,
/// whose first action leads to a node of a second player-one infoset C: C's nodes lie below
/// different nodes of the same previous own infoset, reached with unequal probability
pub fn two_level_own(chance_root: bool) -> Tree {
    use crate::tree::{p, t};
    let branch = |base: f64| {
        p(0, "A", vec![("a", p(0, "C", vec![("u", t(base)), ("d", t(1.0 - 2.0 * base))])), ("b", t(0.25 * base - 0.5))])
    };
    if chance_root {
        Tree::C(None, vec![(1.0, branch(2.0)), (3.0, branch(-1.0))])
    } else {
        p(1, "z", vec![("l", branch(2.0)), ("r", branch(-1.0))])
    }
}

/// chance leads to player one's infoset A (2 actions) or B (3 actions); every action leads to a node
/// of ONE player-two infoset X: the number of X nodes visited in a pass depends on the chance draw
pub fn varying_visits() -> Tree {
    use crate::tree::t;
    let x = |base: f64| Tree::P(1, "X".to_string(), vec![("l".to_string(), t(base)), ("r".to_string(), t(1.0 - base))]);
    Tree::C(
        None,
        vec![
            (1.0, Tree::P(0, "A".to_string(), vec![("a0".to_string(), x(2.0)), ("a1".to_string(), x(-1.0))])),
            (1.0, Tree::P(0, "B".to_string(), vec![("b0".to_string(), x(0.5)), ("b1".to_string(), x(-2.0)), ("b2".to_string(), x(3.0))])),
        ],
    )
}

/// player two's move (r dominated) is hidden from player one, whose infoset K has one node below
/// each; below K's node under l lies a further own infoset Jl (then player two's y), below the one
/// under r a different own infoset Jr: when r has probability exactly 0, Jr is wholly unreachable
/// while K is not
pub fn hidden_then_own() -> Tree {
    use crate::tree::{p, t};
    p(
        1,
        "z",
        vec![
            ("l", p(0, "K", vec![("A", p(0, "Jl", vec![("c", p(1, "y", vec![("u", t(2.0)), ("v", t(-1.0))])), ("d", p(1, "y", vec![("u", t(-1.0)), ("v", t(1.0))]))])), ("B", t(0.0))])),
            ("r", p(0, "K", vec![("A", p(0, "Jr", vec![("e", t(3.0)), ("f", t(2.5))])), ("B", t(2.0))])),
        ],
    )
}

/// a ladder: at each level the mover (player one throughout) either stops at one of `actions - 1`
/// terminals or climbs on; own reach under the uniform strategy is actions^-level
pub fn ladder(levels: usize, actions: usize) -> Tree {
    fn rec(level: usize, levels: usize, actions: usize) -> Tree {
        if level == levels {
            return Tree::T(level as f64);
        }
        let mut acts: Vec<(String, Tree)> = (0..actions - 1).map(|i| (format!("s{}", i), Tree::T(((level * 3 + i) % 7) as f64 - 3.0))).collect();
        acts.push(("up".to_string(), rec(level + 1, levels, actions)));
        Tree::P(0, format!("level{}", level), acts)
    }
    rec(0, levels, actions)
}

/// The curated families, each member with a name
pub fn families() -> Vec<(String, Tree)> {
    let mut res = Vec::new();
    res.push(("single_terminal".to_string(), Tree::T(1.5)));
    for d in 1..=8 {
        res.push((format!("deep_chain_{}", d), deep_chain(d)));
    }
    for w in 1..=6 {
        res.push((format!("wide_shared_{}", w), wide_shared(w)));
    }
    for k in 0..=4 {
        res.push((format!("rare_chance_1e{}", k), rare_chance(k)));
    }
    res.push(("matching_pennies".to_string(), matching_pennies()));
    res.push(("dominated_action".to_string(), dominated_action()));
    res.push(("kuhn".to_string(), kuhn()));
    res.push(("no_decision_p2".to_string(), no_decision_p2()));
    res.push(("two_level_own_chance".to_string(), two_level_own(true)));
    res.push(("two_level_own_p2".to_string(), two_level_own(false)));
    res.push(("varying_visits".to_string(), varying_visits()));
    res.push(("hidden_then_own".to_string(), hidden_then_own()));
    res
}
