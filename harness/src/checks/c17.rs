//! C17 — the program rejects malformed or unsupported input instead of solving it.
//! Enumerated: every SINGLE-EDIT corruption of every generated file, at every node. JSON: drop /
//! rename every required field, wrong type for every field, probability 0 and -1, empty outcome /
//! action maps, truncated and trailing text, the wrong format flag, and trees violating the
//! construction contract (action sets differing within an infoset, probabilities differing within a
//! chance infoset, forgotten own action). Gambit: player lists of one and three names, a payoff
//! perturbed to just inside (must be ACCEPTED) and just outside the constant-sum tolerance, a payoff
//! too large for a double, probabilities not summing to one, an unnamed infoset whose number is
//! another infoset's name, two infosets of one player with the same name, action sets differing
//! within an infoset, truncated text, the wrong format flag, contract violations. Each under the
//! explicit format flag, by file extension, and under auto-detection (.txt and stdin).
//! Oracle: non-zero exit status, nothing on stdout, no output file, and stderr carries the
//! diagnostic of a category that fits the corruption (auto-detection may also answer with its own
//! "no known format" diagnostic).
use crate::cli::{efg_file, json_file, run_cli, sanitize, work_dir, write_file, EfgStyle, GameFile};
use crate::framework::Ctx;
use crate::refmodel::game_dims;
use crate::tree::{c, p, t, Tree};
use rayon::prelude::*;
use serde_json::{json, Value};

#[derive(Debug, Clone)]
pub struct Corruption {
    pub what: String,
    pub text: String,
    pub format: &'static str,
    /// acceptable diagnostic categories; empty = the file must be ACCEPTED
    pub expect: Vec<&'static str>,
    /// the text is a valid file of the OTHER format: only the routes that fix the format apply
    pub explicit_only: bool,
}

pub fn category(stderr: &str) -> Vec<&'static str> {
    let mut res = Vec::new();
    for (key, cat) in [
        ("#json-error", "json-error"),
        ("#game-error", "game-error"),
        ("#gambit-error", "gambit-error"),
        ("#auto-error", "auto-error"),
        ("#duplicate-infosets", "duplicate-infosets"),
        ("#constant-sum", "constant-sum"),
        ("non-finite payoffs", "non-finite"),
        ("two player games", "players"),
    ] {
        if stderr.contains(key) {
            res.push(cat);
        }
    }
    res
}

/// every single-edit corruption of a JSON game file
pub fn json_corruptions(file: &GameFile) -> Vec<Corruption> {
    let root: Value = serde_json::from_str(&file.text).unwrap();
    let mut res = Vec::new();
    // paths to every state object
    fn states(val: &Value, path: Vec<String>, out: &mut Vec<Vec<String>>) {
        out.push(path.clone());
        if let Some(inner) = val.get("chance") {
            if let Some(outs) = inner["outcomes"].as_object() {
                for (name, outcome) in outs {
                    let mut next = path.clone();
                    next.extend(["chance".to_string(), "outcomes".to_string(), name.clone(), "state".to_string()]);
                    states(&outcome["state"], next, out);
                }
            }
        } else if let Some(inner) = val.get("player") {
            if let Some(acts) = inner["actions"].as_object() {
                for (name, next_state) in acts {
                    let mut next = path.clone();
                    next.extend(["player".to_string(), "actions".to_string(), name.clone()]);
                    states(next_state, next, out);
                }
            }
        }
    }
    fn at<'a>(val: &'a mut Value, path: &[String]) -> &'a mut Value {
        let mut cur = val;
        for key in path {
            cur = cur.get_mut(key).unwrap();
        }
        cur
    }
    let mut paths = Vec::new();
    states(&root, vec![], &mut paths);
    let mut push = |what: String, val: &Value, expect: Vec<&'static str>| {
        res.push(Corruption { what, text: serde_json::to_string(val).unwrap(), format: "json", expect, explicit_only: false });
    };
    for path in &paths {
        let here = path.join("/");
        let mut edit = |what: &str, expect: Vec<&'static str>, func: &dyn Fn(&mut Value)| {
            let mut copy = root.clone();
            func(at(&mut copy, path));
            push(format!("{} at /{}", what, here), &copy, expect);
        };
        let node = {
            let mut copy = root.clone();
            at(&mut copy, path).clone()
        };
        if node.get("terminal").is_some() {
            edit("terminal payoff of the wrong type", vec!["json-error"], &|n| n["terminal"] = json!("high"));
            edit("terminal payoff null", vec!["json-error"], &|n| n["terminal"] = Value::Null);
            edit("state kind misspelt", vec!["json-error"], &|n| *n = json!({"termina": 0.0}));
        } else if node.get("player").is_some() {
            for field in ["player_one", "infoset", "actions"] {
                edit(&format!("player field {} dropped", field), vec!["json-error"], &|n| {
                    n["player"].as_object_mut().unwrap().remove(field);
                });
                edit(&format!("player field {} renamed", field), vec!["json-error"], &|n| {
                    let obj = n["player"].as_object_mut().unwrap();
                    let val = obj.remove(field).unwrap();
                    obj.insert(format!("{}_", field), val);
                });
            }
            edit("player_one of the wrong type", vec!["json-error"], &|n| n["player"]["player_one"] = json!("yes"));
            edit("infoset of the wrong type", vec!["json-error"], &|n| n["player"]["infoset"] = json!(3));
            edit("actions of the wrong type", vec!["json-error"], &|n| n["player"]["actions"] = json!([1, 2]));
            edit("empty action map", vec!["game-error"], &|n| n["player"]["actions"] = json!({}));
        } else if node.get("chance").is_some() {
            edit("chance field outcomes dropped", vec!["json-error"], &|n| {
                n["chance"].as_object_mut().unwrap().remove("outcomes");
            });
            edit("outcomes of the wrong type", vec!["json-error"], &|n| n["chance"]["outcomes"] = json!("none"));
            edit("empty outcome map", vec!["game-error"], &|n| n["chance"]["outcomes"] = json!({}));
            let names: Vec<String> = node["chance"]["outcomes"].as_object().unwrap().keys().cloned().collect();
            for name in names {
                for field in ["prob", "state"] {
                    let (nm, fd) = (name.clone(), field);
                    edit(&format!("outcome {} field {} dropped", name, field), vec!["json-error"], &move |n| {
                        n["chance"]["outcomes"][&nm].as_object_mut().unwrap().remove(fd);
                    });
                }
                let nm = name.clone();
                edit(&format!("outcome {} prob of the wrong type", name), vec!["json-error"], &move |n| n["chance"]["outcomes"][&nm]["prob"] = json!("half"));
                let nm = name.clone();
                edit(&format!("outcome {} prob zero", name), vec!["game-error"], &move |n| n["chance"]["outcomes"][&nm]["prob"] = json!(0.0));
                let nm = name.clone();
                edit(&format!("outcome {} prob negative", name), vec!["game-error"], &move |n| n["chance"]["outcomes"][&nm]["prob"] = json!(-1.0));
            }
            // every weight of the node negated: the normalised values would be positive again
            edit("all probs negated", vec!["game-error"], &|n| {
                for (_, out) in n["chance"]["outcomes"].as_object_mut().unwrap().iter_mut() {
                    let w = out["prob"].as_f64().unwrap_or(1.0);
                    out["prob"] = json!(-w);
                }
            });
        }
    }
    let text = &file.text;
    res.push(Corruption { what: "text truncated at three quarters".into(), text: text[..text.len() * 3 / 4].to_string(), format: "json", expect: vec!["json-error"], explicit_only: false });
    res.push(Corruption { what: "trailing garbage".into(), text: format!("{} }}", text), format: "json", expect: vec!["json-error"], explicit_only: false });
    res.push(Corruption { what: "empty file".into(), text: String::new(), format: "json", expect: vec!["json-error"], explicit_only: false });
    res
}

/// trees that violate the construction contract, expressible in both formats
pub fn contract_violations() -> Vec<(String, Tree)> {
    vec![
        ("action sets differ within an infoset".into(), c(None, vec![(1.0, p(0, "x", vec![("a", t(1.0)), ("b", t(0.0))])), (1.0, p(0, "x", vec![("a", t(1.0)), ("c", t(0.0))]))])),
        ("action counts differ within an infoset".into(), c(None, vec![(1.0, p(0, "x", vec![("a", t(1.0)), ("b", t(0.0))])), (1.0, p(0, "x", vec![("a", t(1.0))]))])),
        ("probabilities differ within a chance infoset".into(), p(0, "r", vec![("a", c(Some("k"), vec![(1.0, t(0.0)), (1.0, t(1.0))])), ("b", c(Some("k"), vec![(1.0, t(0.0)), (3.0, t(1.0))]))])),
        ("forgotten own action".into(), p(0, "A", vec![("l", p(0, "B", vec![("x", t(1.0)), ("y", t(0.0))])), ("r", p(0, "B", vec![("x", t(0.0)), ("y", t(1.0))]))])),
        ("forgotten infoset".into(), c(None, vec![(1.0, p(1, "s", vec![("a", p(1, "B", vec![("x", t(1.0)), ("y", t(0.0))])), ("b", t(0.5))])), (1.0, p(1, "B", vec![("x", t(0.0)), ("y", t(1.0))]))])),
    ]
}

/// single-edit corruptions of a Gambit file (one node per line, as the generator writes them)
pub fn efg_corruptions(file: &GameFile) -> Vec<Corruption> {
    let mut res = Vec::new();
    let lines: Vec<&str> = file.text.lines().collect();
    let rebuild = |edit: &dyn Fn(usize, &str) -> Option<String>| -> String { lines.iter().enumerate().map(|(i, l)| edit(i, l).unwrap_or_else(|| l.to_string())).collect::<Vec<_>>().join("\n") + "\n" };
    let mut push = |what: String, text: String, expect: Vec<&'static str>| res.push(Corruption { what, text, format: "efg", expect, explicit_only: false });
    push("one player".into(), rebuild(&|i, l| if i == 0 { Some(l.replace("{ \"one\" \"two\" }", "{ \"one\" }")) } else { None }), vec!["players", "gambit-error"]);
    push("three players".into(), rebuild(&|i, l| if i == 0 { Some(l.replace("{ \"one\" \"two\" }", "{ \"one\" \"two\" \"three\" }")) } else { None }), vec!["players", "gambit-error"]);
    push("header misspelt".into(), rebuild(&|i, l| if i == 0 { Some(l.replacen("EFG 2 R", "EFG 2 F", 1)) } else { None }), vec!["gambit-error"]);
    push("text truncated".into(), file.text[..file.text.len() * 3 / 4].trim_end().trim_end_matches(|c: char| c != ' ').to_string(), vec!["gambit-error", "game-error"]);
    let (range, _, _) = game_dims(&file.model);
    for (ind, line) in lines.iter().enumerate() {
        if line.starts_with("t ") {
            // t "" num "name" { one, two }
            if let (Some(open), Some(close)) = (line.rfind('{'), line.rfind('}')) {
                let pays: Vec<f64> = line[open + 1..close].split(',').map(|s| s.trim().parse::<f64>().unwrap_or(0.0)).collect();
                if pays.len() == 2 && range > 0.0 {
                    let with = |two: String| format!("{}{{ {}, {} }}", &line[..open], crate::cli::efg_num(pays[0]), two);
                    // a fresh outcome number so that a shared outcome is not redefined inconsistently
                    let fresh = |l: String| -> String {
                        let mut parts: Vec<String> = l.splitn(4, ' ').map(|s| s.to_string()).collect();
                        parts[2] = format!("{}", 9000 + ind);
                        parts.join(" ")
                    };
                    let inside = fresh(with(crate::cli::efg_num(pays[1] + range / 1024.0)));
                    let outside = fresh(with(crate::cli::efg_num(pays[1] + range / 128.0)));
                    push(format!("payoff of line {} perturbed inside the constant-sum tolerance", ind), rebuild(&|i, _| if i == ind { Some(inside.clone()) } else { None }), vec![]);
                    push(format!("payoff of line {} perturbed outside the constant-sum tolerance", ind), rebuild(&|i, _| if i == ind { Some(outside.clone()) } else { None }), vec!["constant-sum"]);
                    let huge = format!("1{}", "0".repeat(400));
                    let big = fresh(format!("{}{{ {}, -{} }}", &line[..open], huge, huge));
                    push(format!("payoff of line {} too large for a double", ind), rebuild(&|i, _| if i == ind { Some(big.clone()) } else { None }), vec!["non-finite", "constant-sum", "gambit-error"]);
                }
            }
        } else if line.starts_with("c ") {
            if let Some(pos) = line.find("1/2").or_else(|| line.find("1/4")).or_else(|| line.find("2/8")).or_else(|| line.find("4/8")) {
                let broken = format!("{}1/7{}", &line[..pos], &line[pos + 3..]);
                push(format!("probabilities of line {} do not sum to one", ind), rebuild(&|i, _| if i == ind { Some(broken.clone()) } else { None }), vec!["gambit-error", "game-error"]);
            }
        } else if line.starts_with("p ") {
            // p "" player num "name" { "a" "b" } outcome
            let parts: Vec<&str> = line.splitn(6, ' ').collect();
            if parts.len() == 6 && parts[4].starts_with('"') {
                let (player, num, name) = (parts[2], parts[3], parts[4].trim_matches('"'));
                // another infoset of the same player further down
                let other = lines.iter().enumerate().skip(ind + 1).find(|(_, l)| {
                    let q: Vec<&str> = l.splitn(6, ' ').collect();
                    l.starts_with("p ") && q.len() == 6 && q[2] == player && q[3] != num && q[4].starts_with('"')
                });
                if let Some((oi, ol)) = other {
                    let q: Vec<&str> = ol.splitn(6, ' ').collect();
                    let (onum, oname) = (q[3].to_string(), q[4].trim_matches('"').to_string());
                    // every node of the other infoset takes this infoset's name
                    let (pl, nm) = (player.to_string(), name.to_string());
                    push(
                        format!("two infosets of player {} named {:?} (lines {} and {})", player, name, ind, oi),
                        rebuild(&|_, l| {
                            let r: Vec<&str> = l.splitn(6, ' ').collect();
                            if l.starts_with("p ") && r.len() == 6 && r[2] == pl && r[3] == onum && r[4].trim_matches('"') == oname {
                                Some(format!("p \"\" {} {} \"{}\" {}", pl, onum, nm, r[5]))
                            } else {
                                None
                            }
                        }),
                        vec!["duplicate-infosets", "game-error"],
                    );
                    // this infoset is named like the other's number, the other loses its name
                    let (pl, nm, this_num, onum2, oname2) = (player.to_string(), name.to_string(), num.to_string(), q[3].to_string(), oname.clone());
                    push(
                        format!("infoset {} of player {} named {:?} while infoset {} is unnamed", num, player, q[3], q[3]),
                        rebuild(&|_, l| {
                            let r: Vec<&str> = l.splitn(6, ' ').collect();
                            if !(l.starts_with("p ") && r.len() == 6 && r[2] == pl) {
                                return None;
                            }
                            if r[3] == this_num && r[4].trim_matches('"') == nm {
                                Some(format!("p \"\" {} {} \"{}\" {}", pl, this_num, onum2, r[5]))
                            } else if r[3] == onum2 && r[4].trim_matches('"') == oname2 {
                                Some(format!("p \"\" {} {} {}", pl, onum2, r[5]))
                            } else {
                                None
                            }
                        }),
                        vec!["duplicate-infosets", "game-error"],
                    );
                }
                // one node of a multi-node infoset lists a different action
                let twin = lines.iter().enumerate().any(|(j, l)| {
                    let q: Vec<&str> = l.splitn(6, ' ').collect();
                    j != ind && l.starts_with("p ") && q.len() == 6 && q[2] == player && q[3] == num
                });
                if twin {
                    if let Some(pos) = parts[5].find("\" ") {
                        let changed = format!("p \"\" {} {} \"{}\" {}zz{}", player, num, name, &parts[5][..pos], &parts[5][pos..]);
                        push(format!("line {} lists a different action than the other nodes of its infoset", ind), rebuild(&|i, _| if i == ind { Some(changed.clone()) } else { None }), vec!["gambit-error", "game-error"]);
                    }
                }
            }
        }
    }
    res
}

/// run one corrupted input through every route; false on a violation
pub fn check_corruption(ctx: &Ctx, dir: &std::path::Path, tag: &str, cor: &Corruption) -> bool {
    let flag = if cor.format == "json" { "json" } else { "gambit" };
    let by_ext = write_file(dir, &format!("{}.{}", tag, cor.format), &cor.text);
    let as_txt = write_file(dir, &format!("{}.txt", tag), &cor.text);
    let out_file = dir.join(format!("{}.out", tag)).to_string_lossy().to_string();
    let base: Vec<String> = vec!["-m".into(), "full".into(), "-t".into(), "3".into(), "-p".into(), "1".into()];
    // (description, extra args, stdin?, diagnostics may come from auto-detection)
    let routes: Vec<(&str, Vec<String>, bool, bool)> = vec![
        ("by extension", vec!["-i".into(), by_ext.clone()], false, false),
        ("explicit format", vec!["-i".into(), as_txt.clone(), "--input-format".into(), flag.into()], false, false),
        ("auto-detection (.txt)", vec!["-i".into(), as_txt.clone(), "-o".into(), out_file.clone()], false, true),
        ("auto-detection (stdin)", vec![], true, true),
    ];
    let mut ok = true;
    for (route, extra, stdin, auto) in routes {
        if auto && cor.explicit_only {
            continue;
        }
        let mut args = base.clone();
        args.extend(extra);
        let _ = std::fs::remove_file(&out_file);
        let out = run_cli(&args, if stdin { Some(&cor.text) } else { None }, 30);
        ctx.case(1, true);
        let replay = json!({"text": cor.text, "format": cor.format, "what": cor.what, "expect": cor.expect, "explicit_only": cor.explicit_only});
        let label = format!("[{}; {}] {}", route, cor.format, cor.what);
        if cor.expect.is_empty() {
            // must be accepted
            if out.code != Some(0) || crate::cli::parse_output(&if auto && !stdin { std::fs::read_to_string(&out_file).unwrap_or_default() } else { out.stdout.clone() }).is_err() {
                ctx.violation("valid-file-rejected", &format!("a file inside the documented tolerance was not solved (exit {:?}, {:?}): {}", out.code, category(&out.stderr), label), replay);
                ok = false;
            }
            continue;
        }
        let cats = category(&out.stderr);
        if out.timed_out {
            ctx.violation("hang", &format!("no exit within 30 s: {}", label), replay);
            ok = false;
        } else if out.code == Some(0) {
            ctx.violation("invalid-input-solved", &format!("exit status 0 and output {:?}: {}", out.stdout.chars().take(160).collect::<String>(), label), replay);
            ok = false;
        } else if !out.stdout.trim().is_empty() || std::path::Path::new(&out_file).exists() {
            ctx.violation("result-printed-on-error", &format!("a result was written although the program failed: {}", label), replay);
            ok = false;
        } else if !cats.iter().any(|c| cor.expect.contains(c) || (auto && *c == "auto-error")) {
            ctx.violation("wrong-diagnostic", &format!("diagnostic categories {:?} (stderr {:?}), expected one of {:?}: {}", cats, out.stderr.lines().nth(1).unwrap_or("").chars().take(160).collect::<String>(), cor.expect, label), replay);
            ok = false;
        }
    }
    for path in [by_ext, as_txt, out_file] {
        let _ = std::fs::remove_file(path);
    }
    ok
}

pub fn run(ctx: &Ctx) -> i32 {
    let games = crate::cli::cli_games(ctx.thorough());
    let dir = work_dir("C17");
    let mut all: Vec<(String, Corruption)> = Vec::new();
    let mut files = 0;
    for (gi, (name, tree)) in games.iter().enumerate() {
        if !ctx.thorough() && gi % 2 == 1 && !name.chars().next().map(|ch| ch != 'u').unwrap_or(false) {
            continue;
        }
        if let Some(file) = json_file(name, tree) {
            files += 1;
            // the wrong format flag: a valid JSON file read as Gambit
            all.push((name.clone(), Corruption { what: "valid JSON read with --input-format gambit / as .efg".into(), text: file.text.clone(), format: "efg", expect: vec!["gambit-error"], explicit_only: true }));
            for cor in json_corruptions(&file) {
                all.push((name.clone(), cor));
            }
        }
        for style in [EfgStyle::PLAIN, EfgStyle { sum: 2.0, interior: true, share_outcomes: true, ..EfgStyle::PLAIN }] {
            let file = efg_file(name, tree, style);
            files += 1;
            all.push((name.clone(), Corruption { what: "valid Gambit read with --input-format json / as .json".into(), text: file.text.clone(), format: "json", expect: vec!["json-error"], explicit_only: true }));
            for cor in efg_corruptions(&file) {
                all.push((name.clone(), cor));
            }
        }
    }
    for (what, tree) in contract_violations() {
        if let Some(file) = json_file("contract", &tree) {
            all.push(("contract".into(), Corruption { what: format!("contract violation: {}", what), text: file.text, format: "json", expect: vec!["game-error"], explicit_only: false }));
        }
        let file = efg_file("contract", &tree, EfgStyle::PLAIN);
        all.push(("contract".into(), Corruption { what: format!("contract violation: {}", what), text: file.text, format: "efg", expect: vec!["game-error", "gambit-error"], explicit_only: false }));
    }
    // not constant-sum only through an outcome that one node spells out and another references by
    // number: every path passes the root (sum + 1), only some pass the second node (sum + 2)
    let by_reference = [
        ("player nodes", "EFG 2 R \"by reference\" { \"one\" \"two\" }\np \"\" 1 1 \"r\" { \"a\" \"b\" } 1 \"fee\" { 1, 0 }\np \"\" 2 1 \"z\" { \"l\" \"r\" } 1\nt \"\" 2 \"\" { 1, -1 }\nt \"\" 3 \"\" { -1, 1 }\nt \"\" 4 \"\" { 0, 0 }\n"),
        ("chance node", "EFG 2 R \"by reference\" { \"one\" \"two\" }\np \"\" 1 1 \"r\" { \"a\" \"b\" } 1 \"fee\" { 1, 0 }\nc \"\" 1 \"k\" { \"o0\" 1/2 \"o1\" 1/2 } 1\nt \"\" 2 \"\" { 1, -1 }\nt \"\" 3 \"\" { -1, 1 }\nt \"\" 4 \"\" { 0, 0 }\n"),
        ("reference first", "EFG 2 R \"by reference\" { \"one\" \"two\" }\np \"\" 1 1 \"r\" { \"a\" \"b\" } 0\np \"\" 2 1 \"z\" { \"l\" \"r\" } 1\nt \"\" 2 \"\" { 1, -1 }\nt \"\" 3 \"\" { -1, 1 }\np \"\" 2 2 \"y\" { \"l\" \"r\" } 1 \"fee\" { 1, 0 }\np \"\" 1 2 \"s\" { \"u\" \"d\" } 1\nt \"\" 4 \"\" { 0, 0 }\nt \"\" 5 \"\" { 2, -2 }\nt \"\" 6 \"\" { 1, -1 }\n"),
    ];
    // payoffs far from zero compared with their spread: the sums differ by half (and by a 250th of)
    // player one's payoff range, a thousand (four) times what the reader tolerates
    let offset = [
        ("sum off by 1/2 at payoffs around 1000", "EFG 2 R \"offset\" { \"one\" \"two\" }\np \"\" 1 1 \"r\" { \"a\" \"b\" } 0\nt \"\" 1 \"\" { 1000, -1000 }\nt \"\" 2 \"\" { 1001, -1001.5 }\n"),
        ("sum off by 1/250 at payoffs around 1000", "EFG 2 R \"offset\" { \"one\" \"two\" }\np \"\" 1 1 \"r\" { \"a\" \"b\" } 0\nt \"\" 1 \"\" { 1000, -1000 }\nt \"\" 2 \"\" { 1001, -1001.008 }\n"),
        ("sum off by 1/2 at payoffs around -1000", "EFG 2 R \"offset\" { \"one\" \"two\" }\np \"\" 2 1 \"r\" { \"a\" \"b\" } 0\nt \"\" 1 \"\" { -1000, 1000 }\nt \"\" 2 \"\" { -1001, 1001.5 }\n"),
    ];
    for (what, text) in offset {
        all.push(("offset".into(), Corruption { what: format!("not constant-sum: {}", what), text: text.to_string(), format: "efg", expect: vec!["constant-sum"], explicit_only: false }));
    }
    for (what, text) in by_reference {
        all.push(("by-reference".into(), Corruption { what: format!("not constant-sum through an outcome referenced by number ({})", what), text: text.to_string(), format: "efg", expect: vec!["constant-sum"], explicit_only: false }));
    }
    ctx.set("files_corrupted", json!(files));
    ctx.set("corruptions", json!(all.len()));
    let mut kinds: std::collections::BTreeMap<String, u64> = Default::default();
    for (_, cor) in &all {
        let kind: String = cor.what.split(" at /").next().unwrap_or("").split(" of line").next().unwrap_or("").chars().filter(|ch| !ch.is_ascii_digit()).collect();
        *kinds.entry(format!("{}: {}", cor.format, kind.trim())).or_insert(0) += 1;
    }
    ctx.set("corruption_kinds", json!(kinds));
    all.par_iter().enumerate().for_each(|(ind, (name, cor))| {
        if ctx.stopped() {
            return;
        }
        check_corruption(ctx, &dir, &format!("{}-{}", ind, sanitize(name)), cor);
        if ind % 701 == 0 {
            ctx.sample("corruption", json!({"game": name, "what": cor.what, "format": cor.format, "expect": cor.expect, "text": cor.text.chars().take(400).collect::<String>()}));
        }
    });
    let _ = std::fs::remove_dir_all(&dir);
    ctx.assume("duplicate keys in a JSON object (the parser keeps the last) and added unknown fields (ignored by the format) are not corruptions in the sense of the statement and are not generated");
    ctx.assume("the acceptable diagnostic of a corruption is a set (e.g. a one-name player list is rejected either by the Gambit parser or by the two-player check); auto-detection may answer any corruption with its own 'no known format' diagnostic");
    ctx.finish(
        "every single-edit corruption (kinds and counts in corruption_kinds) of every generated JSON and Gambit file at every node, plus contract-violating trees in both formats, each through 4 input routes (extension, explicit flag, auto-detection from .txt with -o, auto-detection from stdin); states = program runs; one kind (payoff inside the tolerance) must be accepted",
        true,
        "the real binary is run on every enumerated corrupted input; exit status, stdout, the output file and the diagnostic category on stderr are checked",
    )
}

pub fn replay(ctx: &Ctx, val: &Value) -> i32 {
    let dir = work_dir("C17-replay");
    let format: &'static str = if val["format"].as_str() == Some("json") { "json" } else { "efg" };
    let names = ["json-error", "game-error", "gambit-error", "auto-error", "duplicate-infosets", "constant-sum", "non-finite", "players"];
    let expect: Vec<&'static str> = val["expect"].as_array().map(|a| a.iter().filter_map(|e| names.iter().find(|n| Some(**n) == e.as_str()).copied()).collect()).unwrap_or_default();
    let cor = Corruption { what: val["what"].as_str().unwrap_or("").to_string(), text: val["text"].as_str().unwrap_or("").to_string(), format, expect, explicit_only: val["explicit_only"].as_bool().unwrap_or(false) };
    let ok = check_corruption(ctx, &dir, "replay", &cor);
    let _ = std::fs::remove_dir_all(&dir);
    println!("replay {}", if ok { "passes" } else { "fails" });
    if ok {
        0
    } else {
        1
    }
}
