//! C02 — the regret bound of an unsampled vanilla solve dominates the true regret.
//! Enumerated: every valid game of the universe (three payoff fills) and the curated families x
//! budgets x thresholds {0} u {b_t, next(b_t)} for the bounds b_t along the run; one thread through
//! the public entry point, and thread counts {2,3,5,6,7,16} (real pool) on the families. The
//! schedule clause is the composition with C06 (every decomposition and every schedule gives the
//! one-thread result within 1e-9, and the inequality is checked here with that slack).
//! Oracle: max(b1, b2) >= true regret - slack, the true regret being the brute-force best response
//! of refmodel on the returned profile; each b_i >= 0; the total is the larger of the two; a run
//! that stopped early (bound < r) has true regret < r.
use super::c05::wellformed;
use super::c08::ParamSpec;
use super::c18::next_up;
use super::universe_summary;
use crate::explore::{Fallback, Pinned};
use crate::framework::{guarded, par_for_each, Ctx};
use crate::multi::POOL_GATE;
use crate::refcfr::RefMethod;
use crate::refmodel::{infosets, ref_eval};
use crate::runner::{run_impl, ImplOut};
use crate::subject::{build, G};
use crate::tree::Tree;
use crate::universe::{families, fill_distinct, skeletons, Bounds};
use cfr::PlayerNum;
use rayon::prelude::*;
use serde_json::{json, Value};
use std::collections::BTreeMap;

pub const SLACK: f64 = 1e-9;

/// number of pure strategies of the player with more of them
pub fn pure_strategies(tree: &Tree) -> f64 {
    let infos = infosets(tree);
    infos.iter().map(|pl| pl.iter().map(|d| d.actions.len() as f64).product::<f64>()).fold(1.0, f64::max)
}

/// True regrets of a returned profile: brute force where feasible, otherwise the implementation's
/// own evaluation (which C01 ties to the brute force on the whole universe)
pub fn true_regret(tree: &Tree, game: &G, out: &ImplOut) -> Result<([f64; 2], bool), String> {
    if pure_strategies(tree) <= 5000.0 {
        let eval = ref_eval(tree, &out.avg);
        Ok((eval.regrets, true))
    } else {
        let strat = crate::subject::inject(game, tree, &out.avg).map_err(|e| format!("returned profile does not import: {:?}", e))?;
        let info = strat.get_info();
        Ok(([info.player_regret(PlayerNum::One), info.player_regret(PlayerNum::Two)], false))
    }
}

fn num(x: f64) -> Value {
    if x.is_finite() {
        json!(x)
    } else {
        json!(format!("{}", x))
    }
}

pub fn run_one(tree: &Tree, game: &G, iters: u64, max_reg: f64, threads: usize) -> Result<ImplOut, String> {
    let decider = Pinned::new(BTreeMap::new(), Fallback::Free);
    let _gate = if threads != 1 { Some(POOL_GATE.lock().unwrap_or_else(|e| e.into_inner())) } else { None };
    guarded(|| run_impl(tree, game, RefMethod::Full, iters, max_reg, threads, None, ParamSpec::Preset(0).implementation(), &decider)).map_err(|m| format!("panic: {}", m))?
}

/// one (game, budget, threshold, threads) case; returns the total bound (for threshold placement)
pub fn check_case(ctx: &Ctx, tree: &Tree, game: &G, iters: u64, max_reg: f64, threads: usize) -> Option<f64> {
    let replay = json!({"tree": tree.to_replay(), "iters": iters, "max_reg": num(max_reg), "threads": threads});
    let label = format!("[full vanilla T={} r={} threads={}] on {}", iters, max_reg, threads, if tree.num_internal() > 14 { format!("<{} internal nodes>", tree.num_internal()) } else { tree.show() });
    let out = match run_one(tree, game, iters, max_reg, threads) {
        Ok(out) => out,
        Err(msg) => {
            ctx.violation("run-failed", &format!("{} {}", msg, label), replay);
            return None;
        }
    };
    if let Err((class, what)) = wellformed(tree, &out, iters) {
        ctx.violation(&class, &format!("{} {}", what, label), replay);
        return None;
    }
    let total = f64::max(out.bounds[0], out.bounds[1]);
    let (regs, brute) = match true_regret(tree, game, &out) {
        Ok(r) => r,
        Err(msg) => {
            ctx.violation("profile-invalid", &format!("{} {}", msg, label), replay);
            return None;
        }
    };
    if !brute {
        ctx.count("true_regret_from_the_implementation's_evaluator_(too_many_pure_strategies_for_brute_force)", 1);
    }
    let regret = f64::max(regs[0], regs[1]);
    let (d, _, _) = crate::refmodel::game_dims(tree);
    let slack = SLACK * f64::max(1.0, d);
    if !(total >= regret - slack) {
        ctx.violation("bound-below-true-regret", &format!("bound max({}, {}) = {} < true regret {} (players {:?}) {}", out.bounds[0], out.bounds[1], total, regret, regs, label), replay.clone());
    }
    if total < max_reg && !(regret < max_reg + slack) {
        ctx.violation("early-stop-above-threshold", &format!("stopped with bound {} < r = {} but the true regret is {} {}", total, max_reg, regret, label), replay);
    }
    ctx.case(iters, regret > 0.0 && iters > 0);
    Some(total)
}

pub fn run(ctx: &Ctx) -> i32 {
    let bounds = if ctx.thorough() {
        Bounds { max_internal: 4, max_arity: 3, max_leaves: 6, chance_infosets: true, degenerate: true }
    } else {
        Bounds { max_internal: 3, max_arity: 3, max_leaves: 5, chance_infosets: true, degenerate: true }
    };
    let skels = skeletons(&bounds);
    universe_summary(ctx, &bounds, skels.len());
    let variants: usize = 3;
    let mut games: Vec<(String, Tree)> = Vec::new();
    for (i, s) in skels.iter().enumerate() {
        if !super::has_decision(s) {
            continue;
        }
        for v in 0..variants {
            if ctx.thorough() && v > 0 && i % 3 != 0 {
                continue;
            }
            games.push((format!("u{}v{}", i, v), fill_distinct(s, i + v)));
        }
    }
    let fams: Vec<(String, Tree)> = families().into_iter().chain(super::c06::collision_games()).collect();
    games.extend(fams.iter().cloned());
    let budgets: Vec<u64> = if ctx.thorough() { (1..=12).chain([20, 50, 200]).collect() } else { vec![1, 2, 3, 4, 5, 6, 8, 12, 20, 50] };
    ctx.set("budgets", json!(budgets));
    ctx.set("games", json!(games.len()));
    games.par_iter().enumerate().for_each(|(gi, (name, tree))| {
        if ctx.stopped() {
            return;
        }
        let game = match build(tree) {
            Ok(g) => g,
            Err(_) => return,
        };
        let mut totals = Vec::new();
        for &iters in &budgets {
            if let Some(total) = check_case(ctx, tree, &game, iters, 0.0, 1) {
                totals.push(total);
            }
        }
        // thresholds at and just above the bounds met along the run, for a mid-size budget
        if gi % 5 == 0 || name.starts_with(|c: char| !c.is_ascii_digit() && c != 'u') {
            let n = 12;
            let mut seen = Vec::new();
            for t in 1..=n {
                if let Ok(out) = run_one(tree, &game, t, 0.0, 1) {
                    let b = f64::max(out.bounds[0], out.bounds[1]);
                    if !seen.contains(&b.to_bits()) {
                        seen.push(b.to_bits());
                        for r in [b, next_up(b)] {
                            check_case(ctx, tree, &game, n, r, 1);
                            ctx.count("thresholded_runs", 1);
                        }
                    }
                }
            }
        }
        if gi % 2999 == 0 {
            ctx.sample("game x budgets (one thread)", json!({"name": name, "tree": tree.show(), "budgets": budgets, "bounds": totals}));
        }
    });
    // thread counts through the public entry point (real pool); one solve at a time
    let threads: &[usize] = if ctx.thorough() { &[2, 3, 4, 5, 6, 7, 8, 12, 16] } else { &[2, 3, 5, 6, 7, 16] };
    let tb: &[u64] = if ctx.thorough() { &[1, 2, 5, 20, 100] } else { &[1, 5, 20] };
    ctx.set("thread_counts_on_families", json!(threads));
    par_for_each(&fams, 1, |_, (name, tree)| {
        let game = match build(tree) {
            Ok(g) => g,
            Err(_) => return,
        };
        for &th in threads {
            for &iters in tb {
                check_case(ctx, tree, &game, iters, 0.0, th);
                ctx.count("real_pool_runs", 1);
            }
        }
        if name == "kuhn" {
            ctx.sample("family game x thread counts (real pool)", json!({"name": name, "threads": threads, "budgets": tb}));
        }
    });
    ctx.assume("the schedule clause is decided by composition: C06 shows that every task decomposition and every schedule returns the one-thread strategies and bounds within 1e-9, and the inequality is checked here with that slack; the real-pool runs here see whatever schedule the pool produced");
    ctx.assume("true regret = brute-force best response over all pure strategies (refmodel); on games with more than 5000 pure strategies per player the implementation's evaluator (tied to the brute force by C01) is used and counted");
    ctx.finish(
        "every valid game within the bounds (three payoff fills) + curated and collision families x budgets x thresholds at / just above every bound of the 12-iteration run (every 5th game and the families) at one thread, and x thread counts on the families; states = (game, budget, threshold, threads); non-trivial = the returned profile has positive true regret",
        true,
        "the real unsampled solver with vanilla parameters is run on every enumerated configuration; the returned bounds are compared with the true regret of the returned profile computed by an independent brute-force evaluator",
    )
}

pub fn replay(ctx: &Ctx, val: &Value) -> i32 {
    let tree = Tree::from_replay(&val["tree"]);
    let game = build(&tree).expect("valid game");
    let f = |v: &Value| match v {
        Value::String(s) => s.parse::<f64>().unwrap(),
        o => o.as_f64().unwrap(),
    };
    let before = ctx.num_violations();
    let threads = val["threads"].as_u64().unwrap() as usize;
    for _ in 0..(if threads == 1 { 1 } else { 20 }) {
        check_case(ctx, &tree, &game, val["iters"].as_u64().unwrap(), f(&val["max_reg"]), threads);
    }
    let ok = ctx.num_violations() == before;
    println!("replay {}", if ok { "passes" } else { "fails" });
    if ok {
        0
    } else {
        1
    }
}
