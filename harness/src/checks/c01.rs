//! C01 — reported utility and regret of any profile are exact.
//! Enumerated: every valid game of the universe x every profile of the per-infoset grid, injected
//! through Game::from_named. Oracle: recursive expectation + brute-force best response over all
//! pure strategies (refmodel::ref_eval).
use super::{eval_bounds, has_decision, profiles, universe_summary};
use crate::framework::{close, guarded, Ctx};
use crate::refmodel::{ref_eval, Profile};
use crate::subject::{build, inject, profile_from_json, profile_json};
use crate::tree::Tree;
use crate::universe::{families, fill_payoffs, payoff_alphabet, skeletons};
use cfr::PlayerNum;
use rayon::prelude::*;
use serde_json::json;

const TOL: f64 = 1e-9;

pub fn check_case(ctx: &Ctx, tree: &Tree, prof: &Profile) -> bool {
    let game = match guarded(|| build(tree)) {
        Ok(Ok(game)) => game,
        Ok(Err(_)) => {
            ctx.count("valid_game_rejected_(reported_by_C11)", 1);
            return true;
        }
        Err(msg) => {
            ctx.violation("construction-panic", &msg, json!({"tree": tree.to_replay()}));
            return false;
        }
    };
    let expect = ref_eval(tree, prof);
    let got = guarded(|| {
        let strat = inject(&game, tree, prof).map_err(|e| format!("import failed: {:?}", e))?;
        let info = strat.get_info();
        Ok::<_, String>((
            info.player_utility(PlayerNum::One),
            info.player_utility(PlayerNum::Two),
            info.player_regret(PlayerNum::One),
            info.player_regret(PlayerNum::Two),
            info.regret(),
        ))
    });
    let replay = json!({"tree": tree.to_replay(), "profile": profile_json(prof)});
    match got {
        Err(msg) => {
            ctx.violation("evaluation-panic", &msg, replay);
            false
        }
        Ok(Err(msg)) => {
            ctx.violation("valid-profile-rejected", &msg, replay);
            false
        }
        Ok(Ok((u1, u2, r1, r2, reg))) => {
            let mut ok = true;
            let mut fail = |class: &str, what: String| {
                ctx.violation(class, &format!("{} on {}", what, tree.show()), replay.clone());
                ok = false;
            };
            if !close(u1, expect.util, TOL) {
                fail("utility", format!("utility {} but reference {}", u1, expect.util));
            }
            if u2 != -u1 {
                fail("utility-negation", format!("u2 {} is not -u1 {}", u2, u1));
            }
            if !close(r1, expect.regrets[0], TOL) {
                fail("regret-one", format!("player one regret {} but reference {}", r1, expect.regrets[0]));
            }
            if !close(r2, expect.regrets[1], TOL) {
                fail("regret-two", format!("player two regret {} but reference {}", r2, expect.regrets[1]));
            }
            if reg != f64::max(r1, r2) {
                fail("regret-max", format!("total regret {} is not max({}, {})", reg, r1, r2));
            }
            ok
        }
    }
}

pub fn run(ctx: &Ctx) -> i32 {
    let bounds = eval_bounds(ctx);
    let skels = skeletons(&bounds);
    universe_summary(ctx, &bounds, skels.len());
    let cap = if ctx.thorough() { 700 } else { 250 };
    skels.par_iter().for_each(|skel| {
        if ctx.stopped() {
            return;
        }
        let alphabet = payoff_alphabet(skel.num_leaves(), ctx.thorough());
        fill_payoffs(skel, alphabet, &mut |tree| {
            if ctx.stopped() {
                return;
            }
            let (profs, reduced) = profiles(tree, ctx.thorough(), cap);
            if reduced {
                ctx.count("games_with_reduced_profile_grid", 1);
            }
            ctx.count("games", 1);
            let pays = tree.payoffs();
            let flat = pays.iter().all(|p| *p == pays[0]);
            for prof in &profs {
                check_case(ctx, tree, prof);
                ctx.case(tree.num_internal() as u64 + tree.num_leaves() as u64, has_decision(tree) && !flat);
            }
            if ctx.states.load(std::sync::atomic::Ordering::Relaxed) % 50_000 < profs.len() as u64 {
                ctx.sample("game+profile", json!({"tree": tree.show(), "profile": profile_json(&profs[profs.len() / 2])}));
            }
        });
    });
    // one level deeper with binary branching (4 internal nodes, <= 5 leaves): the smallest trees in
    // which an infoset of the deviating player has one reachable node and one behind a
    // zero-probability action that leads on to a further, wholly unreachable infoset; one distinct
    // payoff fill per skeleton, coarse grid (pure strategies, zeros and interior points)
    if !ctx.thorough() {
        let deeper = crate::universe::Bounds { max_internal: 4, max_arity: 2, max_leaves: 5, chance_infosets: true, degenerate: true };
        let skels4 = skeletons(&deeper);
        ctx.set("deeper_binary_universe_skeletons", json!(skels4.len()));
        skels4.par_iter().enumerate().for_each(|(ind, skel)| {
            if ctx.stopped() || skel.num_internal() < 4 || !has_decision(skel) {
                return;
            }
            let tree = crate::universe::fill_distinct(skel, ind);
            let (profs, _) = profiles(&tree, false, 81);
            ctx.count("deeper_binary_games", 1);
            for prof in &profs {
                check_case(ctx, &tree, prof);
                ctx.case(tree.num_internal() as u64 + tree.num_leaves() as u64, true);
            }
        });
    }
    // curated families with the quick grid
    for (name, tree) in families() {
        let (profs, _) = profiles(&tree, false, 400);
        for prof in &profs {
            check_case(ctx, &tree, prof);
            ctx.case(tree.num_internal() as u64 + tree.num_leaves() as u64, true);
        }
        ctx.count("family_games", 1);
        if name == "kuhn" {
            ctx.sample("family", json!({"name": name, "profiles": profs.len()}));
        }
    }
    ctx.assume("payoffs, weights and probabilities outside the enumerated alphabets (magnitudes near f64::MAX, products underflowing to 0) are not covered");
    ctx.finish(
        "every valid tree of the grammar within the universe bounds x every payoff assignment over the per-size alphabet x every profile of the per-infoset probability grid (incl. pure and zero-probability actions); non-trivial = game has a multi-action infoset and non-constant payoffs; each case is distinct by construction",
        true,
        "E-INPUT: each enumerated (game, profile) is replayed through Game::from_root, Game::from_named and Strategies::get_info and compared with an independent evaluator (expectation + brute-force best response over all pure strategies)",
    )
}

pub fn replay(ctx: &Ctx, val: &serde_json::Value) -> i32 {
    let tree = Tree::from_replay(&val["tree"]);
    let prof = profile_from_json(&val["profile"]);
    let ok = check_case(ctx, &tree, &prof);
    println!("replay {}", if ok { "passes" } else { "fails" });
    if ok { 0 } else { 1 }
}
