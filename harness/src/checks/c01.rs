//! C01 — reported utility and regret of any profile are exact.
//! Enumerated: every valid game of the universe x every profile of the per-infoset grid, injected
//! through Game::from_named. Oracle: recursive expectation + brute-force best response over all
//! pure strategies (refmodel::ref_eval).
use super::{eval_bounds, has_decision, profiles, universe_summary};
use crate::framework::{close, guarded, Ctx};
use crate::refmodel::{ref_eval, Profile};
use crate::subject::{build, inject, profile_from_json, profile_json};
use crate::tree::Tree;
use crate::universe::{families, fill_payoffs, payoff_alphabet, skeletons};
use cfr::PlayerNum;
use rayon::prelude::*;
use serde_json::json;

const TOL: f64 = 1e-9;

pub fn check_case(ctx: &Ctx, tree: &Tree, prof: &Profile) -> bool {
    let game = match guarded(|| build(tree)) {
        Ok(Ok(game)) => game,
        Ok(Err(_)) => {
            ctx.count("valid_game_rejected_(reported_by_C11)", 1);
            return true;
        }
        Err(msg) => {
            ctx.violation("construction-panic", &msg, json!({"tree": tree.to_replay()}));
            return false;
        }
    };
    let expect = ref_eval(tree, prof);
    let got = guarded(|| {
        let strat = inject(&game, tree, prof).map_err(|e| format!("import failed: {:?}", e))?;
        let info = strat.get_info();
        Ok::<_, String>((
            info.player_utility(PlayerNum::One),
            info.player_utility(PlayerNum::Two),
            info.player_regret(PlayerNum::One),
            info.player_regret(PlayerNum::Two),
            info.regret(),
        ))
    });
    let replay = json!({"tree": tree.to_replay(), "profile": profile_json(prof)});
    match got {
        Err(msg) => {
            ctx.violation("evaluation-panic", &msg, replay);
            false
        }
        Ok(Err(msg)) => {
            ctx.violation("valid-profile-rejected", &msg, replay);
            false
        }
        Ok(Ok((u1, u2, r1, r2, reg))) => {
            let mut ok = true;
            let mut fail = |class: &str, what: String| {
                ctx.violation(class, &format!("{} on {}", what, tree.show()), replay.clone());
                ok = false;
            };
            if !close(u1, expect.util, TOL) {
                fail("utility", format!("utility {} but reference {}", u1, expect.util));
            }
            if u2 != -u1 {
                fail("utility-negation", format!("u2 {} is not -u1 {}", u2, u1));
            }
            if !close(r1, expect.regrets[0], TOL) {
                fail("regret-one", format!("player one regret {} but reference {}", r1, expect.regrets[0]));
            }
            if !close(r2, expect.regrets[1], TOL) {
                fail("regret-two", format!("player two regret {} but reference {}", r2, expect.regrets[1]));
            }
            if reg != f64::max(r1, r2) {
                fail("regret-max", format!("total regret {} is not max({}, {})", reg, r1, r2));
            }
            ok
        }
    }
}

/// Operation sequences on one game object: evaluate, truncate (in place or on a clone), evaluate
/// again; evaluate two profiles alternately. Every evaluation must be exact for the profile the
/// object holds at that moment (nothing may be remembered from an earlier call).
pub fn check_sequence(ctx: &Ctx, tree: &Tree, prof: &Profile, other: &Profile, thresh: f64) -> bool {
    let replay = json!({"tree": tree.to_replay(), "profile": profile_json(prof), "other": profile_json(other), "threshold": thresh, "sequence": true});
    let res = guarded(|| -> Result<Vec<(String, [f64; 3], Profile)>, String> {
        let game = build(tree).map_err(|e| format!("{:?}", e))?;
        let nums = |s: &crate::subject::S| {
            let info = s.get_info();
            [info.player_utility(PlayerNum::One), info.player_regret(PlayerNum::One), info.player_regret(PlayerNum::Two)]
        };
        let mut out = Vec::new();
        let mut a = inject(&game, tree, prof).map_err(|e| format!("{:?}", e))?;
        let b = inject(&game, tree, other).map_err(|e| format!("{:?}", e))?;
        out.push(("evaluate a".to_string(), nums(&a), crate::subject::read_profile(tree, &a)?));
        out.push(("evaluate b".to_string(), nums(&b), crate::subject::read_profile(tree, &b)?));
        out.push(("evaluate a again".to_string(), nums(&a), crate::subject::read_profile(tree, &a)?));
        let mut cl = a.clone();
        cl.truncate(thresh);
        out.push(("clone a, truncate the clone, evaluate the clone".to_string(), nums(&cl), crate::subject::read_profile(tree, &cl)?));
        out.push(("evaluate a after its clone was truncated".to_string(), nums(&a), crate::subject::read_profile(tree, &a)?));
        a.truncate(thresh);
        out.push(("truncate a in place, evaluate".to_string(), nums(&a), crate::subject::read_profile(tree, &a)?));
        Ok(out)
    });
    match res {
        Err(msg) | Ok(Err(msg)) => {
            ctx.violation("sequence-failed", &format!("{} on {}", msg, tree.show()), replay);
            false
        }
        Ok(Ok(steps)) => {
            let mut ok = true;
            for (what, got, held) in steps {
                let want = ref_eval(tree, &held);
                ctx.case(1, true);
                ctx.count("operation_sequence_steps", 1);
                if !(close(got[0], want.util, TOL) && close(got[1], want.regrets[0], TOL) && close(got[2], want.regrets[1], TOL)) {
                    ctx.violation("stale-evaluation", &format!("after '{}' the object reports utility / regrets {:?} but the profile it holds has {:?} on {}", what, got, [want.util, want.regrets[0], want.regrets[1]], tree.show()), replay.clone());
                    ok = false;
                    break;
                }
            }
            ok
        }
    }
}

pub fn run(ctx: &Ctx) -> i32 {
    let bounds = eval_bounds(ctx);
    let skels = skeletons(&bounds);
    universe_summary(ctx, &bounds, skels.len());
    let cap = 250;
    skels.par_iter().for_each(|skel| {
        if ctx.stopped() {
            return;
        }
        // (the thorough tier has 22 times as many skeletons; it keeps the quick payoff alphabet)
        let alphabet = payoff_alphabet(skel.num_leaves(), false);
        fill_payoffs(skel, alphabet, &mut |tree| {
            if ctx.stopped() {
                return;
            }
            let (profs, reduced) = profiles(tree, ctx.thorough(), cap);
            if reduced {
                ctx.count("games_with_reduced_profile_grid", 1);
            }
            ctx.count("games", 1);
            let pays = tree.payoffs();
            let flat = pays.iter().all(|p| *p == pays[0]);
            for prof in &profs {
                check_case(ctx, tree, prof);
                ctx.case(tree.num_internal() as u64 + tree.num_leaves() as u64, has_decision(tree) && !flat);
            }
            if ctx.states.load(std::sync::atomic::Ordering::Relaxed) % 50_000 < profs.len() as u64 {
                ctx.sample("game+profile", json!({"tree": tree.show(), "profile": profile_json(&profs[profs.len() / 2])}));
            }
        });
    });
    // one level deeper with binary branching (4 internal nodes, <= 5 leaves): the smallest trees in
    // which an infoset of the deviating player has one reachable node and one behind a
    // zero-probability action that leads on to a further, wholly unreachable infoset; one distinct
    // payoff fill per skeleton, coarse grid (pure strategies, zeros and interior points)
    if !ctx.thorough() {
        let deeper = crate::universe::Bounds { max_internal: 4, max_arity: 2, max_leaves: 5, chance_infosets: true, degenerate: true };
        let skels4 = skeletons(&deeper);
        ctx.set("deeper_binary_universe_skeletons", json!(skels4.len()));
        skels4.par_iter().enumerate().for_each(|(ind, skel)| {
            if ctx.stopped() || skel.num_internal() < 4 || !has_decision(skel) {
                return;
            }
            let tree = crate::universe::fill_distinct(skel, ind);
            let (profs, _) = profiles(&tree, false, 81);
            ctx.count("deeper_binary_games", 1);
            for prof in &profs {
                check_case(ctx, &tree, prof);
                ctx.case(tree.num_internal() as u64 + tree.num_leaves() as u64, true);
            }
        });
    }
    // operation sequences (evaluate / clone / truncate / evaluate) on one game object
    {
        let small = crate::universe::Bounds { max_internal: 3, max_arity: 3, max_leaves: 5, chance_infosets: true, degenerate: true };
        let games: Vec<Tree> = skeletons(&small).iter().enumerate().filter(|(_, s)| has_decision(s)).map(|(i, s)| crate::universe::fill_distinct(s, i)).collect();
        games.par_iter().for_each(|tree| {
            let (profs, _) = profiles(tree, false, 12);
            for (i, prof) in profs.iter().enumerate() {
                let other = &profs[(i + 1) % profs.len()];
                for thresh in [0.25, 0.5] {
                    check_sequence(ctx, tree, prof, other, thresh);
                }
            }
        });
    }
    // the Strategies object as a state machine (truncate / re-import / clone, <= 3 operations): the
    // evaluation must be exact at every reachable state
    super::explore_api(ctx, "stale-evaluation", &|tree, _, obj, model, ops| {
        let info = obj.get_info();
        // evaluate twice: the second call must not depend on the first
        let again = obj.get_info();
        let want = ref_eval(tree, model);
        let got = [info.player_utility(PlayerNum::One), info.player_regret(PlayerNum::One), info.player_regret(PlayerNum::Two)];
        let got2 = [again.player_utility(PlayerNum::One), again.player_regret(PlayerNum::One), again.player_regret(PlayerNum::Two)];
        if !(close(got[0], want.util, TOL) && close(got[1], want.regrets[0], TOL) && close(got[2], want.regrets[1], TOL)) || got != got2 {
            return Err(format!("after {:?} the object reports utility / regrets {:?} (second call {:?}) but the profile it holds has {:?}", ops, got, got2, [want.util, want.regrets[0], want.regrets[1]]));
        }
        Ok(())
    });
    // chance nodes whose weights are near f64::MAX (their sum overflows): k = 2..7 outcomes
    let mut fams: Vec<(String, Tree)> = families();
    for k in 2..=7usize {
        for (tag, weight) in [("max", f64::MAX), ("1.5e308", 1.5e308)] {
            let outs: Vec<(f64, Tree)> = (0..k)
                .map(|i| (if i == 0 { weight * (2.0 / 3.0) } else { weight }, Tree::P(i % 2, "x".to_string(), vec![("a".to_string(), Tree::T(i as f64 - 1.0)), ("b".to_string(), Tree::T(2.0 - i as f64 * 0.5))])))
                .collect();
            fams.push((format!("huge_chance_{}_{}", k, tag), Tree::C(None, outs)));
        }
    }
    // curated families with the quick grid
    for (name, tree) in fams {
        let (profs, _) = profiles(&tree, false, 400);
        for prof in &profs {
            check_case(ctx, &tree, prof);
            ctx.case(tree.num_internal() as u64 + tree.num_leaves() as u64, true);
        }
        ctx.count("family_games", 1);
        if name == "kuhn" {
            ctx.sample("family", json!({"name": name, "profiles": profs.len()}));
        }
    }
    ctx.assume("payoffs, weights and probabilities outside the enumerated alphabets (magnitudes near f64::MAX, products underflowing to 0) are not covered");
    ctx.finish(
        "every valid tree of the grammar within the universe bounds x every payoff assignment over the per-size alphabet x every profile of the per-infoset probability grid (incl. pure and zero-probability actions); non-trivial = game has a multi-action infoset and non-constant payoffs; each case is distinct by construction",
        true,
        "E-INPUT: each enumerated (game, profile) is replayed through Game::from_root, Game::from_named and Strategies::get_info and compared with an independent evaluator (expectation + brute-force best response over all pure strategies)",
    )
}

pub fn replay(ctx: &Ctx, val: &serde_json::Value) -> i32 {
    let tree = Tree::from_replay(&val["tree"]);
    let prof = profile_from_json(&val["profile"]);
    if val["sequence"].as_bool() == Some(true) {
        let ok = check_sequence(ctx, &tree, &prof, &profile_from_json(&val["other"]), val["threshold"].as_f64().unwrap());
        println!("replay {}", if ok { "passes" } else { "fails" });
        return if ok { 0 } else { 1 };
    }
    let ok = check_case(ctx, &tree, &prof);
    println!("replay {}", if ok { "passes" } else { "fails" });
    if ok { 0 } else { 1 }
}
