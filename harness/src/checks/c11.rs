//! C11 — Game construction accepts exactly the documented class of games.
//!
//! Universe (unfiltered): every raw shape within the bounds x
//!   (a) every labelling over a small alphabet {x, y} (forces sharing, both players) and the
//!       all-unique labelling, every chance-infoset labelling over {None, c0, c1}, every weight
//!       vector of the per-arity alphabet, every action-list variant per player node
//!       (positional, reversed, duplicated, shifted);
//!   (b) on the positional-action trees of (a): every single local corruption and every pair of
//!       local corruptions (bad weight at each outcome position, node emptied, non-finite payoff,
//!       leaf replaced by an empty chance / player node).
//! Oracle: refmodel::ref_validate (rule by rule from the documented contract, textbook perfect
//! recall): Ok <=> no rule violated; Err(kind) => kind is one of the violated rules; never panics;
//! every accepted game survives evaluation of the uniform profile and two iterations of each method.
use crate::framework::{guarded, Ctx};
use crate::refmodel::{ref_validate, uniform_profile, Rule};
use crate::subject::{build, inject};
use crate::tree::Tree;
use crate::universe::{raw_shapes, weight_alphabet, Bounds, ACTS};
use cfr::SolveMethod;
use rayon::prelude::*;
use serde_json::json;
use std::collections::BTreeSet;

fn rules_name(rules: &BTreeSet<Rule>) -> String {
    rules.iter().map(|r| r.name()).collect::<Vec<_>>().join("+")
}

pub fn check_tree(ctx: &Ctx, tree: &Tree, exercise: bool) -> bool {
    let rules = ref_validate(tree);
    let replay = json!({"tree": tree.to_replay()});
    let res = guarded(|| build(tree));
    match res {
        Err(msg) => {
            ctx.violation("construction-panic", &format!("{} on {}", msg, tree.show()), replay);
            false
        }
        Ok(Ok(game)) => {
            if !rules.is_empty() {
                ctx.violation(
                    &format!("accepted-invalid:{}", rules_name(&rules)),
                    &format!("accepted a tree violating {} : {}", rules_name(&rules), tree.show()),
                    replay,
                );
                return false;
            }
            ctx.count("accepted_valid", 1);
            if exercise {
                let prof = uniform_profile(tree);
                let used = guarded(|| {
                    let strat = inject(&game, tree, &prof).map_err(|e| format!("uniform profile rejected: {:?}", e))?;
                    let info = strat.get_info();
                    if !info.regret().is_finite() {
                        return Err(format!("regret of the uniform profile is {}", info.regret()));
                    }
                    for method in [SolveMethod::Full, SolveMethod::Sampled, SolveMethod::External] {
                        let (strats, _) = game.solve(method, 2, 0.0, 1, None).map_err(|e| format!("{:?}", e))?;
                        let reg = strats.get_info().regret();
                        if !reg.is_finite() {
                            return Err(format!("regret after solving with {:?} is {}", method, reg));
                        }
                    }
                    Ok(())
                });
                match used {
                    Ok(Ok(())) => {}
                    Ok(Err(msg)) | Err(msg) => {
                        ctx.violation("accepted-but-unusable", &format!("{} on {}", msg, tree.show()), replay);
                        return false;
                    }
                }
                ctx.count("accepted_and_exercised", 1);
            }
            true
        }
        Ok(Err(err)) => {
            let name = format!("{:?}", err);
            if rules.is_empty() {
                ctx.violation(
                    &format!("rejected-valid:{}", name),
                    &format!("rejected a valid tree with {} : {}", name, tree.show()),
                    replay,
                );
                false
            } else if !rules.iter().any(|r| r.name() == name) {
                ctx.violation(
                    &format!("wrong-error:{}-for-{}", name, rules_name(&rules)),
                    &format!("error {} names no violated rule (violated: {}) : {}", name, rules_name(&rules), tree.show()),
                    replay,
                );
                false
            } else {
                ctx.count(&format!("rejected_{}", name), 1);
                true
            }
        }
    }
}

fn action_variants(arity: usize) -> Vec<Vec<&'static str>> {
    match arity {
        0 => vec![vec![]],
        1 => vec![vec!["a"], vec!["b"]],
        2 => vec![vec!["a", "b"], vec!["b", "a"], vec!["a", "a"], vec!["b", "c"]],
        3 => vec![vec!["a", "b", "c"], vec!["a", "c", "b"], vec!["a", "a", "c"]],
        _ => vec![ACTS[..arity].to_vec()],
    }
}

struct Slot {
    options: usize,
}

/// enumerate every combination of per-node options and call `func` with the option indices
fn product(slots: &[Slot], func: &mut impl FnMut(&[usize])) {
    let mut idx = vec![0usize; slots.len()];
    loop {
        func(&idx);
        let mut pos = 0;
        loop {
            if pos == slots.len() {
                return;
            }
            idx[pos] += 1;
            if idx[pos] < slots[pos].options {
                break;
            }
            idx[pos] = 0;
            pos += 1;
        }
    }
}

fn fill_fixed(tree: &mut Tree) {
    let mut li = 0;
    tree.walk_mut(&mut |n| {
        if let Tree::T(pay) = n {
            *pay = [1.0, -2.0, 0.0, 3.0, -1.0, 0.5, 2.0][li % 7];
            li += 1;
        }
    });
}

/// (a): labellings x chance labels x weights x action variants
fn labelled_variants(shape: &Tree, with_action_variants: bool, func: &mut impl FnMut(&Tree)) {
    // preorder list of internal nodes: (is_chance, arity)
    let mut nodes = Vec::new();
    shape.walk(&mut |n| match n {
        Tree::C(_, outs) => nodes.push((true, outs.len())),
        Tree::P(_, _, acts) => nodes.push((false, acts.len())),
        _ => {}
    });
    const PLABELS: [&str; 2] = ["x", "y"];
    const CLABELS: [Option<&str>; 3] = [None, Some("c0"), Some("c1")];
    // per node: label option x secondary option (weights / action variant)
    let mut slots = Vec::new();
    for (is_chance, arity) in &nodes {
        if *is_chance {
            slots.push(Slot { options: CLABELS.len() });
            slots.push(Slot { options: weight_alphabet(*arity).len() });
        } else {
            slots.push(Slot { options: PLABELS.len() });
            slots.push(Slot { options: if with_action_variants { action_variants(*arity).len() } else { 1 } });
        }
    }
    let mut emit = |idx: &[usize], unique: bool| {
        let mut tree = shape.clone();
        let mut ni = 0;
        tree.walk_mut(&mut |n| match n {
            Tree::C(info, outs) => {
                *info = CLABELS[idx[2 * ni]].map(|s| s.to_string());
                let ws = &weight_alphabet(outs.len())[idx[2 * ni + 1]];
                for ((w, _), nw) in outs.iter_mut().zip(ws.iter()) {
                    *w = *nw;
                }
                ni += 1;
            }
            Tree::P(_, info, acts) => {
                if !unique {
                    *info = PLABELS[idx[2 * ni]].to_string();
                } // else keep the unique "n<k>" label of the raw shape
                let names = &action_variants(acts.len())[idx[2 * ni + 1]];
                for ((a, _), na) in acts.iter_mut().zip(names.iter()) {
                    *a = na.to_string();
                }
                ni += 1;
            }
            _ => {}
        });
        fill_fixed(&mut tree);
        func(&tree);
    };
    product(&slots, &mut |idx| {
        emit(idx, false);
        // the all-unique labelling once per combination of the other options
        let first_label = nodes
            .iter()
            .enumerate()
            .all(|(i, (is_chance, _))| *is_chance || idx[2 * i] == 0);
        if first_label && nodes.iter().any(|(c, _)| !*c) {
            emit(idx, true);
        }
    });
}

#[derive(Debug, Clone)]
enum Corruption {
    /// set weight `pos` of internal node `node` (preorder) to `val`
    Weight(usize, usize, f64),
    /// remove all children of internal node `node`
    Empty(usize),
    /// set the payoff of leaf `leaf` to `val`
    Payoff(usize, f64),
    /// replace leaf `leaf` by an empty chance node / empty node of player 0 / 1
    LeafEmpty(usize, usize),
}

fn corruptions(tree: &Tree) -> Vec<Corruption> {
    let mut res = Vec::new();
    let mut ni = 0;
    let mut li = 0;
    tree.walk(&mut |n| match n {
        Tree::C(_, outs) => {
            for pos in 0..outs.len() {
                for val in [0.0, -1.0, f64::NAN, f64::INFINITY, 1e308] {
                    res.push(Corruption::Weight(ni, pos, val));
                }
            }
            res.push(Corruption::Empty(ni));
            ni += 1;
        }
        Tree::P(..) => {
            res.push(Corruption::Empty(ni));
            ni += 1;
        }
        Tree::T(_) => {
            for val in [f64::NAN, f64::INFINITY, f64::NEG_INFINITY] {
                res.push(Corruption::Payoff(li, val));
            }
            for kind in 0..3 {
                res.push(Corruption::LeafEmpty(li, kind));
            }
            li += 1;
        }
    });
    res
}

fn apply(tree: &Tree, corr: &Corruption) -> Tree {
    let mut tree = tree.clone();
    let mut ni = 0;
    let mut li = 0;
    tree.walk_mut(&mut |n| {
        let internal = !matches!(n, Tree::T(_));
        if internal {
            match (corr, &mut *n) {
                (Corruption::Weight(node, pos, val), Tree::C(_, outs)) if *node == ni => {
                    if let Some(out) = outs.get_mut(*pos) {
                        out.0 = *val;
                    }
                }
                (Corruption::Empty(node), Tree::C(_, outs)) if *node == ni => outs.clear(),
                (Corruption::Empty(node), Tree::P(_, _, acts)) if *node == ni => acts.clear(),
                _ => {}
            }
            ni += 1;
        } else {
            match corr {
                Corruption::Payoff(leaf, val) if *leaf == li => *n = Tree::T(*val),
                Corruption::LeafEmpty(leaf, kind) if *leaf == li => {
                    *n = match kind {
                        0 => Tree::C(None, vec![]),
                        k => Tree::P(k - 1, "e".to_string(), vec![]),
                    }
                }
                _ => {}
            }
            li += 1;
        }
    });
    tree
}

pub fn run(ctx: &Ctx) -> i32 {
    let bounds = Bounds { max_internal: 3, max_arity: 3, max_leaves: 5, chance_infosets: true, degenerate: true };
    let mut shapes = raw_shapes(&bounds);
    if ctx.thorough() {
        // thorough: additionally the binary shapes with four internal nodes get the full treatment
        // (action variants and single corruptions); the quick tier only labels them (pass (c))
        let deeper = Bounds { max_internal: 4, max_arity: 2, max_leaves: 5, chance_infosets: true, degenerate: true };
        shapes.extend(raw_shapes(&deeper).into_iter().filter(|s| s.num_internal() == 4));
    }
    ctx.set("universe", json!({"max_internal_nodes": bounds.max_internal, "max_arity": bounds.max_arity, "max_leaves": bounds.max_leaves, "raw_shapes": shapes.len()}));
    // (pairs of corruptions on shapes with three internal nodes do not finish within an hour)
    let pair_limit_internal = 2;
    shapes.par_iter().for_each(|shape| {
        if ctx.stopped() {
            return;
        }
        let mut count = 0u64;
        // (a) with action variants
        labelled_variants(shape, true, &mut |tree| {
            let ok = check_tree(ctx, tree, count % 7 == 0);
            let valid = ref_validate(tree).is_empty();
            ctx.case(tree.num_internal() as u64 + 1, !valid || tree.num_internal() >= 2);
            ctx.count(if valid { "trees_valid" } else { "trees_invalid" }, 1);
            if !valid && ok && count % 100_003 == 0 {
                ctx.sample("invalid tree, rejected with a violated rule", json!(tree.show()));
            }
            count += 1;
        });
        // (b) local corruptions on the positional-action trees: singles everywhere, pairs on small shapes
        labelled_variants(shape, false, &mut |tree| {
            let corrs = corruptions(tree);
            for (i, first) in corrs.iter().enumerate() {
                let one = apply(tree, first);
                check_tree(ctx, &one, false);
                ctx.case(one.num_internal() as u64 + 1, true);
                ctx.count("single_corruptions", 1);
                if shape.num_internal() <= pair_limit_internal {
                    // the second corruption is applied to the *original* numbering where still
                    // meaningful; a pair that touches a removed node degenerates to a single
                    for second in corrs.iter().skip(i + 1) {
                        let two = apply(&one, second);
                        check_tree(ctx, &two, false);
                        ctx.case(two.num_internal() as u64 + 1, true);
                        ctx.count("pair_corruptions", 1);
                    }
                }
            }
        });
    });
    // (c) one level deeper with binary branching (4 internal nodes, <= 5 leaves), positional actions,
    // no corruptions: recall violations that need an own move above one node of an infoset and none
    // above another, in either visiting order
    if !ctx.thorough() {
        let deeper = Bounds { max_internal: 4, max_arity: 2, max_leaves: 5, chance_infosets: true, degenerate: true };
        let shapes4: Vec<Tree> = raw_shapes(&deeper).into_iter().filter(|s| s.num_internal() == 4).collect();
        ctx.set("deeper_binary_raw_shapes", json!(shapes4.len()));
        shapes4.par_iter().for_each(|shape| {
            if ctx.stopped() {
                return;
            }
            let mut count = 0u64;
            labelled_variants(shape, false, &mut |tree| {
                check_tree(ctx, tree, count % 29 == 0);
                ctx.case(tree.num_internal() as u64 + 1, true);
                ctx.count("deeper_binary_trees", 1);
                count += 1;
            });
        });
    }
    // hand-written distant-branch witnesses (kept as named regression inputs; also found by (a))
    for (name, tree) in witnesses() {
        check_tree(ctx, &tree, true);
        ctx.case(tree.num_internal() as u64 + 1, true);
        ctx.sample("witness", json!({"name": name, "tree": tree.show(), "violates": rules_name(&ref_validate(&tree))}));
    }
    ctx.assume("weight vectors whose sum overflows and non-power-of-two rescalings inside one shared chance infoset are outside the alphabet");
    ctx.finish(
        "every raw shape within the bounds x every infoset labelling over {x,y} plus the all-unique one x chance labels {None,c0,c1} x weight alphabet x action-list variants; plus every single local corruption (and every pair on small shapes) of the positional-action trees; non-trivial = the tree is invalid or has at least two internal nodes; cases are distinct by construction",
        true,
        "E-INPUT: every enumerated tree (valid and invalid) is passed to Game::from_root and the verdict compared with the reference validator; accepted trees are additionally evaluated and solved",
    )
}

pub fn witnesses() -> Vec<(&'static str, Tree)> {
    use crate::tree::{c, p, t};
    vec![
        (
            "infoset with one action here and two there",
            c(None, vec![(1.0, p(0, "x", vec![("a", t(1.0))])), (1.0, p(0, "x", vec![("a", t(0.0)), ("b", t(2.0))]))]),
        ),
        (
            "forgotten own action",
            p(0, "A", vec![
                ("l", p(0, "B", vec![("x", t(1.0)), ("y", t(0.0))])),
                ("r", p(0, "B", vec![("x", t(0.0)), ("y", t(1.0))])),
            ]),
        ),
        (
            "chance infoset with one outcome here and two there",
            c(None, vec![(1.0, c(Some("k"), vec![(1.0, t(1.0))])), (1.0, c(Some("k"), vec![(1.0, t(0.0)), (1.0, t(2.0))]))]),
        ),
        ("non-finite payoff", t(f64::NAN)),
        (
            "chance infoset: two outcomes here, a third of negligible weight there",
            c(None, vec![(1.0, c(Some("k"), vec![(1.0, t(1.0)), (1.0, t(0.0))])), (1.0, c(Some("k"), vec![(1.0, t(0.0)), (1.0, t(2.0)), (1e-17, t(4e17))]))]),
        ),
        (
            "chance infoset: three outcomes with a negligible one here, two there",
            c(None, vec![(1.0, c(Some("k"), vec![(1.0, t(0.0)), (1.0, t(2.0)), (1e-17, t(4e17))])), (1.0, c(Some("k"), vec![(1.0, t(1.0)), (1.0, t(0.0))]))]),
        ),
        (
            "chance infoset: one outcome here, a second of negligible weight there",
            c(None, vec![(1.0, c(Some("k"), vec![(1.0, t(1.0))])), (1.0, c(Some("k"), vec![(1.0, t(0.0)), (1e-17, t(2.0))]))]),
        ),
        (
            "infoset met after an own move first and before any own move later",
            c(None, vec![(1.0, p(0, "y", vec![("a", p(0, "x", vec![("l", t(1.0)), ("r", t(0.0))])), ("b", t(0.5))])), (1.0, p(0, "x", vec![("l", t(0.0)), ("r", t(1.0))]))]),
        ),
        (
            "infoset met before any own move first and after an own move later",
            c(None, vec![(1.0, p(1, "x", vec![("l", t(0.0)), ("r", t(1.0))])), (1.0, p(1, "y", vec![("a", p(1, "x", vec![("l", t(1.0)), ("r", t(0.0))])), ("b", t(0.5))]))]),
        ),
        (
            "three chance weights near f64::MAX (valid: proportional to 2:3:3)",
            c(None, vec![(1.0e308, p(0, "x", vec![("a", t(1.0)), ("b", t(0.0))])), (1.5e308, p(0, "x", vec![("a", t(0.0)), ("b", t(2.0))])), (1.5e308, t(-1.0))]),
        ),
        (
            "one chance infoset given as 2:3 here and 6:9 there (valid: the same distribution)",
            c(None, vec![(1.0, c(Some("k"), vec![(2.0, t(1.0)), (3.0, t(0.0))])), (1.0, c(Some("k"), vec![(6.0, t(0.0)), (9.0, t(2.0))]))]),
        ),
        (
            "one chance infoset given as 1:2 here and 11:22 there (valid)",
            c(None, vec![(1.0, c(Some("k"), vec![(1.0, t(1.0)), (2.0, t(0.0))])), (1.0, c(Some("k"), vec![(11.0, t(0.0)), (22.0, t(2.0))]))]),
        ),
        (
            "one chance infoset given as 3:1:1 here and 21:7:7 there (valid)",
            c(None, vec![(1.0, c(Some("k"), vec![(3.0, t(1.0)), (1.0, t(0.0)), (1.0, t(-1.0))])), (1.0, c(Some("k"), vec![(21.0, t(0.0)), (7.0, t(2.0)), (7.0, t(1.0))]))]),
        ),
        (
            "absent-mindedness",
            p(1, "x", vec![("a", p(1, "x", vec![("a", t(0.0)), ("b", t(1.0))])), ("b", t(2.0))]),
        ),
        (
            "forgotten action of player two across chance",
            p(1, "A", vec![
                ("l", c(None, vec![(1.0, p(1, "B", vec![("x", t(1.0)), ("y", t(0.0))])), (1.0, t(0.0))])),
                ("r", p(0, "m", vec![("u", p(1, "B", vec![("x", t(0.0)), ("y", t(1.0))])), ("v", t(0.0))])),
            ]),
        ),
    ]
}

pub fn replay(ctx: &Ctx, val: &serde_json::Value) -> i32 {
    let tree = Tree::from_replay(&val["tree"]);
    let ok = check_tree(ctx, &tree, true);
    println!("replay {} (reference: violates [{}])", if ok { "passes" } else { "fails" }, rules_name(&ref_validate(&tree)));
    if ok { 0 } else { 1 }
}
