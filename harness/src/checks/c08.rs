//! C08 — the solvers compute the documented discounted-CFR iterates.
//! Enumerated: games x {Full, Sampled, External} x parameter tuples (a,b in {-inf,0,.5,1,1.5,+inf},
//! g in {0,1,2}, w in {-inf,-1,0,1,+inf}) plus the five presets and None x budgets; for the sampled
//! methods every draw history up to a pass horizon (E-CHOICE) and hash-pinned histories beyond.
//! Oracle: refcfr::ref_cfr on the same (uncollapsed, named) tree under the same decisions.
use super::universe_summary;
use crate::explore::{draws_json, explore, script_from_json, Fallback, Pinned};
use crate::framework::{guarded, Ctx};
use crate::refcfr::{ref_cfr, RefMethod, RefParams};
use crate::runner::{align, run_impl, to_params, translate_log};
use crate::subject::build;
use crate::tree::Tree;
use crate::universe::{families, fill_distinct, skeletons, Bounds};
use cfr::RegretParams;
use rayon::prelude::*;
use serde_json::{json, Value};
use std::collections::BTreeMap;

#[derive(Debug, Clone, Copy, PartialEq)]
pub enum ParamSpec {
    /// `None` passed to solve: must mean the documented default (dcfr)
    Default,
    /// one of the five named presets
    Preset(usize),
    Tuple(RefParams),
}

pub const PRESET_NAMES: [&str; 5] = ["vanilla", "lcfr", "cfr_plus", "dcfr", "dcfr_prune"];
pub const PRESET_REF: [RefParams; 5] = [RefParams::VANILLA, RefParams::LCFR, RefParams::CFR_PLUS, RefParams::DCFR, RefParams::DCFR_PRUNE];

pub fn preset_impl(ind: usize) -> RegretParams {
    match ind {
        0 => RegretParams::vanilla(),
        1 => RegretParams::lcfr(),
        2 => RegretParams::cfr_plus(),
        3 => RegretParams::dcfr(),
        _ => RegretParams::dcfr_prune(),
    }
}

impl ParamSpec {
    pub fn reference(&self) -> RefParams {
        match self {
            ParamSpec::Default => RefParams::DCFR,
            ParamSpec::Preset(i) => PRESET_REF[*i],
            ParamSpec::Tuple(p) => *p,
        }
    }
    pub fn implementation(&self) -> Option<RegretParams> {
        match self {
            ParamSpec::Default => None,
            ParamSpec::Preset(i) => Some(preset_impl(*i)),
            ParamSpec::Tuple(p) => Some(to_params(*p)),
        }
    }
    pub fn to_json(&self) -> Value {
        let num = |x: f64| if x.is_finite() { json!(x) } else { json!(format!("{}", x)) };
        match self {
            ParamSpec::Default => json!("default"),
            ParamSpec::Preset(i) => json!(PRESET_NAMES[*i]),
            ParamSpec::Tuple(p) => json!([num(p.a), num(p.b), num(p.g), num(p.w)]),
        }
    }
    pub fn from_json(val: &Value) -> ParamSpec {
        let num = |v: &Value| match v {
            Value::String(s) => s.parse::<f64>().unwrap(),
            other => other.as_f64().unwrap(),
        };
        match val {
            Value::String(s) if s == "default" => ParamSpec::Default,
            Value::String(s) => ParamSpec::Preset(PRESET_NAMES.iter().position(|n| n == s).unwrap()),
            arr => ParamSpec::Tuple(RefParams { a: num(&arr[0]), b: num(&arr[1]), g: num(&arr[2]), w: num(&arr[3]) }),
        }
    }
}

pub fn method_name(m: RefMethod) -> &'static str {
    match m {
        RefMethod::Full => "full",
        RefMethod::Sampled => "sampled",
        RefMethod::External => "external",
    }
}

pub fn method_from(name: &str) -> RefMethod {
    match name {
        "full" => RefMethod::Full,
        "sampled" => RefMethod::Sampled,
        _ => RefMethod::External,
    }
}

pub const METHODS: [RefMethod; 3] = [RefMethod::Full, RefMethod::Sampled, RefMethod::External];

#[derive(Debug, PartialEq)]
pub enum Verdict {
    Agree,
    /// differs, but the reference met a tie / near-zero regret sum: not decidable, not a violation
    Inconclusive,
    Violation,
}

/// Compare one implementation run (already executed under `decider`) with the specification
#[allow(clippy::too_many_arguments)]
pub fn compare(
    ctx: &Ctx,
    tree: &Tree,
    method: RefMethod,
    spec: ParamSpec,
    iters: u64,
    out: &crate::runner::ImplOut,
    log: &[crate::explore::Draw],
    al: &crate::runner::Alignment,
    replay: &Value,
) -> Verdict {
    compare_opt(ctx, tree, method, spec, iters, out, log, al, replay, true)
}

/// as `compare`; with `strategies == false` only the draw sites and distributions are compared
#[allow(clippy::too_many_arguments)]
pub fn compare_opt(
    ctx: &Ctx,
    tree: &Tree,
    method: RefMethod,
    spec: ParamSpec,
    iters: u64,
    out: &crate::runner::ImplOut,
    log: &[crate::explore::Draw],
    al: &crate::runner::Alignment,
    replay: &Value,
    strategies: bool,
) -> Verdict {
    let mut fail = |class: &str, what: String| {
        ctx.violation(class, &format!("{} [{} {} T={}] on {}", what, method_name(method), spec.to_json(), iters, tree.show()), replay.clone());
    };
    if let Some(bad) = log.iter().find(|d| d.intended.is_some() && d.intended != Some(d.result)) {
        fail("sampler-ignored-variate", format!("the production sampler returned {} for a variate in the interval of {:?} over {:?}", bad.result, bad.intended, bad.weights));
        return Verdict::Violation;
    }
    let decisions = match translate_log(al, method, log) {
        Ok(map) => map,
        Err(msg) => {
            fail("draw-site", msg);
            return Verdict::Violation;
        }
    };
    let mut decide = |key: &crate::refcfr::RefKey, _: &[f64]| decisions.get(key).map(|(_, c)| *c);
    let reference = match ref_cfr(tree, method, spec.reference(), iters, &mut decide) {
        Ok(r) => r,
        Err(msg) => {
            fail("draw-missing", msg);
            return Verdict::Violation;
        }
    };
    let flagged = reference.flags.any();
    let mut differs: Option<(String, String)> = None;
    // the draws: same sites, same weights presented
    let mut used = BTreeMap::new();
    for d in &reference.draws {
        used.insert(d.key.clone(), d);
    }
    for (key, (weights, _)) in &decisions {
        match used.get(key) {
            None => {
                fail("extra-draw", format!("the implementation drew at {:?}, the specification does not", key));
                return Verdict::Violation;
            }
            Some(d) => {
                if d.weights.len() != weights.len() || d.weights.iter().zip(weights.iter()).any(|(a, b)| (a - b).abs() > 1e-9) {
                    differs = Some(("draw-weights".into(), format!("at {:?} the sampler was given {:?}, the specification's distribution is {:?}", key, weights, d.weights)));
                    break;
                }
            }
        }
    }
    if differs.is_none() && strategies {
        let want = &reference.snapshots[iters as usize];
        'outer: for pl in 0..2 {
            for (info, probs) in &want[pl] {
                let got = &out.avg[pl][info];
                if got.len() != probs.len() || got.iter().zip(probs.iter()).any(|(g, w)| !((g - w).abs() <= 1e-9)) {
                    differs = Some(("strategy-differs".into(), format!("player {} infoset {}: implementation {:?}, specification {:?}", pl + 1, info, got, probs)));
                    break 'outer;
                }
            }
        }
    }
    match differs {
        None => Verdict::Agree,
        Some(_) if flagged => Verdict::Inconclusive,
        Some((class, what)) => {
            // Is the specification itself determinate here? A regret that is zero up to rounding
            // gives a reach probability of ~1e-17 instead of 0, and a scale-free regret matching
            // further down the tree turns that into a macroscopic difference. The specification is
            // run again on the same game with every payoff multiplied by 3 (mathematically the same
            // iterates for the presets and for w scaled by 1/3; different rounding): if it
            // disagrees with itself, the case is ill conditioned and is not judged.
            let scaled = super::c03::scale(tree, 3.0);
            let mut params = spec.reference();
            if params.w.is_finite() {
                params.w /= 3.0;
            }
            let mut decide = |key: &crate::refcfr::RefKey, _: &[f64]| decisions.get(key).map(|(_, c)| *c);
            let sensitive = match ref_cfr(&scaled, method, params, iters, &mut decide) {
                Ok(again) => {
                    let (a, b) = (&reference.snapshots[iters as usize], &again.snapshots[iters as usize]);
                    again.flags.any() || (0..2).any(|pl| a[pl].iter().any(|(k, v)| b[pl].get(k).map(|w| v.iter().zip(w.iter()).any(|(x, y)| (x - y).abs() > 1e-9)).unwrap_or(true)))
                }
                Err(_) => false,
            };
            if sensitive {
                ctx.count("ill_conditioned_(the_specification_disagrees_with_itself_under_rescaled_payoffs)", 1);
                return Verdict::Inconclusive;
            }
            fail(&class, what);
            Verdict::Violation
        }
    }
}

pub fn case_json(tree: &Tree, method: RefMethod, spec: ParamSpec, iters: u64, fallback: Fallback, log: &[crate::explore::Draw]) -> Value {
    json!({
        "tree": tree.to_replay(),
        "method": method_name(method),
        "params": spec.to_json(),
        "iters": iters,
        "fallback": match fallback { Fallback::First => json!("first"), Fallback::Hash(s) => json!(s), Fallback::Free => json!("free") },
        "script": draws_json(log),
    })
}

/// One pinned run: implementation under `script` + `fallback`, then comparison
pub fn check_case(ctx: &Ctx, tree: &Tree, method: RefMethod, spec: ParamSpec, iters: u64, script: BTreeMap<cfr::verif::Key, usize>, fallback: Fallback) -> Verdict {
    let res = guarded(|| -> Result<_, String> {
        let game = build(tree).map_err(|e| format!("valid game rejected: {:?}", e))?;
        let al = align(tree, &game)?;
        let decider = Pinned::new(script.clone(), fallback);
        let out = run_impl(tree, &game, method, iters, 0.0, 1, None, spec.implementation(), &decider)?;
        Ok((out, decider.take_log(), al))
    });
    match res {
        Err(msg) => {
            ctx.violation("panic", &format!("{} [{} {} T={}] on {}", msg, method_name(method), spec.to_json(), iters, tree.show()), case_json(tree, method, spec, iters, fallback, &[]));
            Verdict::Violation
        }
        Ok(Err(msg)) => {
            ctx.violation("run-failed", &format!("{} [{} {} T={}] on {}", msg, method_name(method), spec.to_json(), iters, tree.show()), case_json(tree, method, spec, iters, fallback, &[]));
            Verdict::Violation
        }
        Ok(Ok((out, log, al))) => {
            let replay = case_json(tree, method, spec, iters, fallback, &log);
            ctx.add(&ctx.transitions, iters + log.len() as u64);
            compare(ctx, tree, method, spec, iters, &out, &log, &al, &replay)
        }
    }
}

fn tally(ctx: &Ctx, verdict: &Verdict, nontrivial: bool) {
    ctx.evaluations.fetch_add(1, std::sync::atomic::Ordering::Relaxed);
    ctx.states.fetch_add(1, std::sync::atomic::Ordering::Relaxed);
    match verdict {
        Verdict::Agree => {
            ctx.validated.fetch_add(1, std::sync::atomic::Ordering::Relaxed);
            if nontrivial {
                ctx.nontrivial.fetch_add(1, std::sync::atomic::Ordering::Relaxed);
            }
        }
        Verdict::Inconclusive => ctx.count("ill_conditioned_(tie_or_near_zero_regret_sum;_differs;_not_compared)", 1),
        Verdict::Violation => {}
    }
}

/// every draw history of (tree, method, spec, iters)
pub fn all_histories(ctx: &Ctx, tree: &Tree, method: RefMethod, spec: ParamSpec, iters: u64, max_runs: u64) {
    let game = match build(tree) {
        Ok(g) => g,
        Err(_) => return,
    };
    let al = match align(tree, &game) {
        Ok(al) => al,
        Err(msg) => {
            ctx.violation("compact-tree", &msg, json!({"tree": tree.to_replay()}));
            return;
        }
    };
    let stats = explore(
        |decider| guarded(|| run_impl(tree, &game, method, iters, 0.0, 1, None, spec.implementation(), decider)),
        |log, _prob, res| {
            let replay = case_json(tree, method, spec, iters, Fallback::First, log);
            ctx.add(&ctx.transitions, iters + log.len() as u64);
            let verdict = match res {
                Ok(Ok(out)) => compare(ctx, tree, method, spec, iters, &out, log, &al, &replay),
                Ok(Err(msg)) | Err(msg) => {
                    ctx.violation("run-failed", &format!("{} [{} {} T={}] on {}", msg, method_name(method), spec.to_json(), iters, tree.show()), replay);
                    Verdict::Violation
                }
            };
            tally(ctx, &verdict, true);
            ctx.count("histories_explored_exhaustively", 1);
        },
        max_runs,
    );
    match stats {
        Ok(stats) => {
            if stats.capped {
                ctx.count("history_enumerations_capped", 1);
            }
            ctx.count("history_enumerations_completed", if stats.capped { 0 } else { 1 });
        }
        Err(msg) => ctx.violation("explorer-divergence", &msg, json!({"tree": tree.to_replay(), "method": method_name(method), "params": spec.to_json(), "iters": iters})),
    }
}

fn tuples() -> Vec<RefParams> {
    let ab = [f64::NEG_INFINITY, 0.0, 0.5, 1.0, 1.5, f64::INFINITY];
    let mut res = Vec::new();
    for a in ab {
        for b in ab {
            for g in [0.0, 1.0, 2.0] {
                for w in [f64::NEG_INFINITY, -1.0, 0.0, 1.0, f64::INFINITY] {
                    res.push(RefParams { a, b, g, w });
                }
            }
        }
    }
    res
}

fn chosen_specs() -> Vec<ParamSpec> {
    let mut specs = vec![ParamSpec::Default];
    specs.extend((0..5).map(ParamSpec::Preset));
    for p in [
        RefParams { a: 0.5, b: 1.5, g: 1.0, w: 0.0 },
        RefParams { a: 0.0, b: f64::NEG_INFINITY, g: 0.0, w: 1.0 },
        RefParams { a: f64::NEG_INFINITY, b: 1.0, g: 2.0, w: 0.0 },
        RefParams { a: 1.0, b: 0.5, g: 1.0, w: -1.0 },
        RefParams { a: 1.5, b: 0.0, g: 2.0, w: f64::NEG_INFINITY },
        RefParams { a: 2.0, b: -1.0, g: 0.5, w: 0.0 },
    ] {
        specs.push(ParamSpec::Tuple(p));
    }
    specs
}

pub fn run(ctx: &Ctx) -> i32 {
    // documented preset tuples, as data
    for (ind, want) in PRESET_REF.iter().enumerate() {
        if preset_impl(ind) != to_params(*want) {
            ctx.violation("preset-tuple", &format!("preset {} is {:?}, documented {:?}", PRESET_NAMES[ind], preset_impl(ind), want), json!({"preset": PRESET_NAMES[ind]}));
        }
        ctx.case(1, true);
    }
    if RegretParams::default() != to_params(RefParams::DCFR) {
        ctx.violation("default-params", "RegretParams::default() is not dcfr", json!({"preset": "default"}));
    }
    // universe A: small games, full parameter product, unsampled + all histories of the sampled methods
    let small = Bounds { max_internal: 2, max_arity: 3, max_leaves: 6, chance_infosets: true, degenerate: true };
    let small_skels = skeletons(&small);
    let all_tuples = tuples();
    let budgets_full: &[u64] = if ctx.thorough() { &[1, 2, 3, 4, 5, 6, 7, 8, 9, 10, 11, 12, 20, 50] } else { &[1, 2, 3, 4, 6, 9, 12] };
    let fills = if ctx.thorough() { 3 } else { 1 };
    let games_a: Vec<Tree> = small_skels.iter().flat_map(|s| (0..fills).map(move |v| fill_distinct(s, v))).filter(super::has_decision).collect();
    ctx.set("universe_A", json!({"max_internal_nodes": small.max_internal, "max_arity": small.max_arity, "games": games_a.len(), "param_tuples": all_tuples.len(), "budgets": budgets_full}));
    games_a.par_iter().enumerate().for_each(|(gi, tree)| {
        if ctx.stopped() {
            return;
        }
        for (ti, tuple) in all_tuples.iter().enumerate() {
            let spec = ParamSpec::Tuple(*tuple);
            for iters in budgets_full {
                let v = check_case(ctx, tree, RefMethod::Full, spec, *iters, BTreeMap::new(), Fallback::First);
                tally(ctx, &v, true);
            }
            // sampled methods on the full tuple product: one pinned history per (tuple, budget)
            for method in [RefMethod::Sampled, RefMethod::External] {
                for iters in [2u64, 5] {
                    let v = check_case(ctx, tree, method, spec, iters, BTreeMap::new(), Fallback::Hash(ctx.seed ^ (ti as u64) << 8 ^ iters));
                    tally(ctx, &v, true);
                    ctx.count("pinned_histories_(hash)", 1);
                }
            }
            if gi % 97 == 0 && ti % 131 == 0 {
                ctx.sample("universe A case", json!({"tree": tree.show(), "method": "full", "params": spec.to_json(), "iters": budgets_full}));
            }
        }
        // large payoffs (x 1000, x 1e6; exact for the universe's small integer payoffs) with a finite
        // non-zero softmax weight: |weight| x regret spread goes far beyond 709, where a softmax
        // that shifts by the wrong end overflows (the specification shifts by the largest scaled
        // regret, so it only ever underflows to an exact 0)
        for factor in [1e3, 1e6] {
            let big = super::c03::scale(tree, factor);
            for tuple in all_tuples.iter().filter(|t| t.w.is_finite() && t.w != 0.0) {
                let spec = ParamSpec::Tuple(*tuple);
                for iters in [2u64, 3, 5, 9] {
                    let v = check_case(ctx, &big, RefMethod::Full, spec, iters, BTreeMap::new(), Fallback::First);
                    tally(ctx, &v, true);
                    ctx.count("large_payoff_cases_(softmax_weight_x_regret_spread_beyond_709)", 1);
                }
            }
        }
        // all histories for a few tuples
        for spec in chosen_specs() {
            all_histories(ctx, tree, RefMethod::Sampled, spec, 3, 4096);
            all_histories(ctx, tree, RefMethod::External, spec, 2, 4096);
        }
    });
    // universe B: larger games, chosen parameter sets, pinned histories
    let bounds = if ctx.thorough() {
        Bounds { max_internal: 4, max_arity: 3, max_leaves: 6, chance_infosets: true, degenerate: true }
    } else {
        Bounds { max_internal: 3, max_arity: 3, max_leaves: 5, chance_infosets: true, degenerate: true }
    };
    let skels = skeletons(&bounds);
    universe_summary(ctx, &bounds, skels.len());
    let mut games_b: Vec<Tree> = skels.iter().enumerate().map(|(i, s)| fill_distinct(s, i)).filter(super::has_decision).collect();
    games_b.extend(families().into_iter().filter(|(n, _)| !n.starts_with("rare_chance_1e4") && !n.starts_with("rare_chance_1e3")).map(|(_, t)| t));
    let budgets_b: &[u64] = if ctx.thorough() { &[1, 2, 3, 5, 8, 12, 25, 50] } else { &[1, 3, 7, 12] };
    let seeds = if ctx.thorough() { 3 } else { 1 };
    games_b.par_iter().enumerate().for_each(|(gi, tree)| {
        if ctx.stopped() {
            return;
        }
        for spec in chosen_specs() {
            for iters in budgets_b {
                let v = check_case(ctx, tree, RefMethod::Full, spec, *iters, BTreeMap::new(), Fallback::First);
                tally(ctx, &v, true);
                for method in [RefMethod::Sampled, RefMethod::External] {
                    for s in 0..seeds {
                        let v = check_case(ctx, tree, method, spec, *iters, BTreeMap::new(), Fallback::Hash(ctx.seed.wrapping_add(s * 7919 + gi as u64)));
                        tally(ctx, &v, true);
                        ctx.count("pinned_histories_(hash)", 1);
                    }
                }
            }
        }
        // large payoffs with forgotten positive regrets (a = -inf) and a finite non-zero softmax
        // weight: infosets whose cumulative regrets are all clearly negative, far apart
        let big = super::c03::scale(tree, 1e3);
        for p in [
            RefParams { a: f64::NEG_INFINITY, b: f64::INFINITY, g: 0.0, w: -1.0 },
            RefParams { a: f64::NEG_INFINITY, b: 1.0, g: 1.0, w: 1.0 },
            RefParams { a: f64::NEG_INFINITY, b: 1.5, g: 2.0, w: -0.5 },
        ] {
            for iters in [2u64, 4, 7, 12] {
                let v = check_case(ctx, &big, RefMethod::Full, ParamSpec::Tuple(p), iters, BTreeMap::new(), Fallback::First);
                tally(ctx, &v, true);
                ctx.count("large_payoff_cases_(softmax_weight_x_regret_spread_beyond_709)", 1);
            }
        }
        if gi % 1999 == 0 {
            ctx.sample("universe B case", json!({"tree": tree.show(), "methods": ["full", "sampled", "external"], "params": "5 presets, None, 6 tuples", "iters": budgets_b}));
        }
    });
    // universe C: the multi-threaded implementations (real pool, public entry point) against the
    // specification, on games large enough for the public task target to split the tree
    {
        let mut games_c: Vec<(String, Tree)> = super::c06::collision_games();
        for (k, d) in [(2usize, 4usize), (2, 5), (2, 6), (3, 3), (3, 4)] {
            games_c.push((format!("kary_{}_{}", k, d), crate::universe::kary_alternating(k, d)));
        }
        games_c.push(("kuhn".into(), crate::universe::kuhn()));
        crate::framework::par_for_each(&games_c, 1, |gi, (_, tree)| {
            let game = match build(tree) {
                Ok(g) => g,
                Err(_) => return,
            };
            let al = match align(tree, &game) {
                Ok(al) => al,
                Err(_) => return,
            };
            for method in METHODS {
                for spec in [ParamSpec::Preset(3), ParamSpec::Preset(1), ParamSpec::Preset(2)] {
                    for iters in [3u64, 10] {
                        for threads in [2usize, 3] {
                            let fallback = Fallback::Hash(crate::explore::mix(ctx.seed ^ gi as u64));
                            let decider = Pinned::new(BTreeMap::new(), fallback);
                            let res = {
                                let _gate = crate::multi::POOL_GATE.lock().unwrap_or_else(|e| e.into_inner());
                                guarded(|| run_impl(tree, &game, method, iters, 0.0, threads, None, spec.implementation(), &decider))
                            };
                            let log = decider.take_log();
                            let mut replay = case_json(tree, method, spec, iters, fallback, &log);
                            replay["threads"] = json!(threads);
                            let verdict = match res {
                                Ok(Ok(out)) => compare(ctx, tree, method, spec, iters, &out, &log, &al, &replay),
                                Ok(Err(msg)) | Err(msg) => {
                                    ctx.violation("run-failed", &format!("{} [{} {} T={} threads={}] on {}", msg, method_name(method), spec.to_json(), iters, threads, tree.show()), replay);
                                    Verdict::Violation
                                }
                            };
                            tally(ctx, &verdict, true);
                            ctx.count("multi_threaded_runs_against_the_specification", 1);
                        }
                    }
                }
            }
        });
    }
    ctx.assume("ties in the +-inf fallback and regret sums within 1e-9 of zero are discontinuities of regret matching: a run that differs from the specification there is counted as ill-conditioned, not as a violation");
    ctx.assume("infosets never reached with positive own weight may carry any distribution");
    ctx.assume("hash-pinned histories are a finite replayable selection, not an enumeration; the exhaustively enumerated histories are counted separately (histories_explored_exhaustively)");
    ctx.finish(
        "universe A: every valid game with <= 2 internal nodes x 540 parameter tuples x budgets (Full), x {2,5} iterations under a pinned history (Sampled, External), x every draw history of 3 (Sampled) / 2 (External) iterations for 12 parameter sets; universe B: every valid skeleton of the larger bounds and the curated families x 12 parameter sets x budgets x 3 methods; states = (game, method, parameters, budget, history) cases; validated = cases where the implementation agrees with the executable specification",
        true,
        "E-INPUT x E-CHOICE: each case runs the real solver under pinned sampling decisions and the textbook reference under the same decisions; strategies, draw sites and the distributions presented to the sampler are compared",
    )
}

pub fn replay(ctx: &Ctx, val: &Value) -> i32 {
    if val.get("tree").is_none() {
        println!("preset comparison: rerun the check");
        return 2;
    }
    let tree = Tree::from_replay(&val["tree"]);
    let fallback = match &val["fallback"] {
        Value::String(s) if s == "first" => Fallback::First,
        Value::String(_) => Fallback::Free,
        num => Fallback::Hash(num.as_u64().unwrap()),
    };
    let v = check_case(ctx, &tree, method_from(val["method"].as_str().unwrap()), ParamSpec::from_json(&val["params"]), val["iters"].as_u64().unwrap(), script_from_json(&val["script"]), fallback);
    println!("replay: {:?}", v);
    if v == Verdict::Violation { 1 } else { 0 }
}
