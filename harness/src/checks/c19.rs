//! C19 — strategy distance is a well-defined, bounded, symmetric dissimilarity.
//! Enumerated: every valid skeleton (incl. games where a player has no multi-action infoset) x
//! every ordered pair of grid profiles x p in {0.25, 0.5, 1, 2, 7.5, 100, 2000}; the two documented panics.
use super::{profiles, universe_summary};
use crate::framework::{guarded, Ctx};
use crate::refmodel::Profile;
use crate::subject::{build, inject, profile_from_json, profile_json};
use crate::tree::Tree;
use crate::universe::{families, fill_distinct, skeletons, Bounds};
use rayon::prelude::*;
use serde_json::json;

const PS: [f64; 7] = [0.25, 0.5, 1.0, 2.0, 7.5, 100.0, 2000.0];

pub fn check_pair(ctx: &Ctx, tree: &Tree, left: &Profile, right: &Profile, p: f64) -> bool {
    let replay = json!({"tree": tree.to_replay(), "left": profile_json(left), "right": profile_json(right), "p": p});
    let res = guarded(|| -> Result<([f64; 2], [f64; 2]), String> {
        let game = build(tree).map_err(|e| format!("valid game rejected: {:?}", e))?;
        let a = inject(&game, tree, left).map_err(|e| format!("{:?}", e))?;
        let b = inject(&game, tree, right).map_err(|e| format!("{:?}", e))?;
        Ok((a.distance(&b, p), b.distance(&a, p)))
    });
    let (ab, ba) = match res {
        Err(msg) => {
            ctx.violation("panic", &format!("{} (p={}) on {}", msg, p, tree.show()), replay);
            return false;
        }
        Ok(Err(msg)) => {
            ctx.violation("setup", &msg, replay);
            return false;
        }
        Ok(Ok(pair)) => pair,
    };
    let mut ok = true;
    for pl in 0..2 {
        let same = left[pl]
            .iter()
            .filter(|(_, v)| v.len() >= 2)
            .all(|(k, v)| right[pl].get(k) == Some(v));
        let val = ab[pl];
        let mut fail = |class: &str, what: String| {
            ctx.violation(class, &format!("{} (player {}, p={}) on {} with {:?} vs {:?}", what, pl + 1, p, tree.show(), left[pl], right[pl]), replay.clone());
            ok = false;
        };
        if val.is_nan() {
            fail("nan", "distance is NaN".to_string());
            continue;
        }
        if !(0.0..=1.0).contains(&val) {
            fail(if p < 1.0 { "range:p<1" } else { "range:p>=1" }, format!("distance {} outside [0,1]", val));
        }
        if same && val != 0.0 {
            fail("nonzero-for-equal", format!("distance {} for identical strategies", val));
        }
        if !same && !(val > 0.0) {
            // |d|^p may underflow for large p and tiny differences: grid differences are >= 0.25,
            // 0.25^100 = 6e-61 is representable, so no excuse on this alphabet
            fail(if p > 500.0 { "zero-for-different:p-underflow" } else { "zero-for-different" }, format!("distance {} for different strategies", val));
        }
        if val.to_bits() != ba[pl].to_bits() {
            fail("asymmetric", format!("d(a,b)={} but d(b,a)={}", val, ba[pl]));
        }
    }
    ok
}

fn check_panics(ctx: &Ctx, tree: &Tree) {
    let prof = crate::refmodel::uniform_profile(tree);
    let replay = json!({"tree": tree.to_replay()});
    for p in [0.0, -1.0, -0.0, f64::NEG_INFINITY] {
        let res = guarded(|| {
            let game = build(tree).unwrap();
            let a = inject(&game, tree, &prof).unwrap();
            a.distance(&a, p)
        });
        match res {
            Err(msg) if msg.contains("`p` must be positive") => {}
            other => ctx.violation("missing-panic-p", &format!("p={} gave {:?}", p, other), replay.clone()),
        }
        ctx.case(1, true);
    }
    let res = guarded(|| {
        let game = build(tree).unwrap();
        let other = build(tree).unwrap();
        let a = inject(&game, tree, &prof).unwrap();
        let b = inject(&other, tree, &prof).unwrap();
        a.distance(&b, 1.0)
    });
    match res {
        Err(msg) if msg.contains("same game") => {}
        other => ctx.violation("missing-panic-game", &format!("different game objects gave {:?}", other), replay),
    }
    ctx.case(1, true);
}

pub fn run(ctx: &Ctx) -> i32 {
    let bounds = if ctx.thorough() {
        Bounds { max_internal: 3, max_arity: 3, max_leaves: 7, chance_infosets: false, degenerate: true }
    } else {
        Bounds { max_internal: 2, max_arity: 3, max_leaves: 7, chance_infosets: false, degenerate: true }
    };
    let skels = skeletons(&bounds);
    universe_summary(ctx, &bounds, skels.len());
    let mut games: Vec<Tree> = skels.iter().map(|s| fill_distinct(s, 1)).collect();
    games.extend(families().into_iter().filter(|(n, _)| !n.starts_with("kuhn") && !n.starts_with("deep_chain_8") && !n.starts_with("deep_chain_7")).map(|(_, t)| t));
    games.par_iter().enumerate().for_each(|(gi, tree)| {
        if ctx.stopped() {
            return;
        }
        check_panics(ctx, tree);
        let (profs, _) = profiles(tree, ctx.thorough(), 64);
        for (i, left) in profs.iter().enumerate() {
            for (j, right) in profs.iter().enumerate() {
                for p in PS {
                    check_pair(ctx, tree, left, right, p);
                    ctx.case(1, i != j);
                }
                if gi % 211 == 0 && i == 0 && j == profs.len() - 1 {
                    ctx.sample("game+pair", json!({"tree": tree.show(), "left": profile_json(left), "right": profile_json(right), "p": PS}));
                }
            }
        }
    });
    ctx.assume("probability differences below 0.25 combined with p=100 (underflow of |d|^p to 0) are outside the grid");
    // the Strategies object as a state machine: the distance between every reachable state and a
    // fresh import of the same profile is 0 both ways; between a state and a fresh import of the
    // uniform profile it is symmetric, in [0,1], and zero iff the two profiles coincide
    super::explore_api(ctx, "state-machine-distance", &|tree, _, obj, model, ops| {
        for p in [1.0, 2.0] {
            let twin = obj.clone();
            let d = obj.distance(&twin, p);
            if d != [0.0, 0.0] || twin.distance(obj, p) != [0.0, 0.0] {
                return Err(format!("after {:?} the distance between the object and its clone is {:?} (p={})", ops, d, p));
            }
            let mut moved = obj.clone();
            moved.truncate(0.4);
            let (ab, ba) = (obj.distance(&moved, p), moved.distance(obj, p));
            let held = crate::subject::read_profile(tree, &moved)?;
            for pl in 0..2 {
                let same = model[pl].iter().filter(|(_, v)| v.len() >= 2).all(|(k, v)| held[pl].get(k).map(|w| v.iter().zip(w.iter()).all(|(a, b)| a == b)).unwrap_or(false));
                if ab[pl].to_bits() != ba[pl].to_bits() || !(0.0..=1.0).contains(&ab[pl]) || (same && ab[pl] != 0.0) || (!same && !(ab[pl] > 0.0)) {
                    return Err(format!("after {:?}: distance to its truncate(0.4) is {:?} / {:?} (p={}, player {} profiles {})", ops, ab, ba, p, pl + 1, if same { "equal" } else { "different" }));
                }
            }
        }
        Ok(())
    });
    ctx.finish(
        "every valid skeleton within the bounds and the curated families x every ordered pair of grid profiles x p in {0.25,0.5,1,2,7.5,100,2000}, plus the panic cases (p in {0,-0,-1,-inf}; different game object) on every game; non-trivial = the two profiles differ",
        true,
        "E-INPUT: Strategies::distance on every enumerated pair, checked against the stated range / zero / positivity / symmetry / panic clauses",
    )
}

pub fn replay(ctx: &Ctx, val: &serde_json::Value) -> i32 {
    let tree = Tree::from_replay(&val["tree"]);
    if val.get("left").is_none() {
        check_panics(ctx, &tree);
        return if ctx.num_violations() == 0 { 0 } else { 1 };
    }
    let ok = check_pair(ctx, &tree, &profile_from_json(&val["left"]), &profile_from_json(&val["right"]), val["p"].as_f64().unwrap());
    println!("replay {}", if ok { "passes" } else { "fails" });
    if ok { 0 } else { 1 }
}
