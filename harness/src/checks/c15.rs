//! C15 — the program's output is faithful to the game in the input file.
//! Enumerated: files generated from file-level models (JSON DSL; Gambit .efg in ten styles: constant
//! sums 0 / 2 / -3, payoffs on interior nodes, outcomes shared by number, unnamed infosets, reduced
//! and unreduced rational probabilities, reversed action lists, infoset names shared by the two
//! players) of the tiny universe and curated families x methods {full, sampled, external} x
//! discount presets x budgets x thread counts x clip thresholds. The built binary runs as a
//! subprocess.
//! Oracle: exit status 0; stdout is one JSON object; each printed strategy is a behavioural strategy
//! over the file's own infoset and action names (zero-probability actions omitted); the printed
//! utilities and regrets equal the independent evaluation (refmodel, brute-force best response) of
//! the PRINTED strategies on the file's own payoffs, so the sampled methods' randomness is
//! irrelevant; u1 + u2 = the file's constant; total regret = the larger player regret.
use crate::cli::{cli_games, efg_file, json_file, parse_output, printed_profile, run_cli, sanitize, work_dir, write_file, EfgStyle, GameFile};
use crate::framework::{close, Ctx};
use crate::refmodel::{game_dims, ref_eval};
use crate::tree::Tree;
use rayon::prelude::*;
use serde_json::{json, Value};

pub const DISCOUNTS: [&str; 5] = ["vanilla", "lcfr", "cfr-plus", "dcfr", "dcfr-prune"];

/// one run of the program on one file; returns false on a violation
pub fn check_run(ctx: &Ctx, file: &GameFile, path: &str, args: &[String]) -> bool {
    let mut full: Vec<String> = vec!["-i".into(), path.to_string()];
    full.extend(args.iter().cloned());
    let replay = json!({"file": file.text, "format": file.format, "model": file.model.to_replay(), "sum": file.sum, "args": args, "label": file.label});
    let label = format!("`cfr -i <{}> {}` on {}", file.format, args.join(" "), file.label);
    let out = run_cli(&full, None, 60);
    ctx.case(1, true);
    if out.timed_out {
        ctx.violation("hang", &format!("no exit within 60 s: {}", label), replay);
        return false;
    }
    if out.code != Some(0) {
        ctx.violation("valid-file-rejected", &format!("exit status {:?}, stderr {:?}: {}", out.code, out.stderr.lines().find(|l| l.contains("panicked") || l.contains("error")).unwrap_or("").chars().take(200).collect::<String>() + &out.stderr.lines().nth(1).unwrap_or("").chars().take(200).collect::<String>(), label), replay);
        return false;
    }
    let printed = match parse_output(&out.stdout) {
        Ok(p) => p,
        Err(msg) => {
            ctx.violation("output-format", &format!("{}: {}", msg, label), replay);
            return false;
        }
    };
    let prof = match printed_profile(&file.model, &printed) {
        Ok(p) => p,
        Err(msg) => {
            ctx.violation("printed-strategy-invalid", &format!("{}: {}", msg, label), replay);
            return false;
        }
    };
    let eval = ref_eval(&file.model, &prof);
    let (d, _, _) = game_dims(&file.model);
    let scale = f64::max(1.0, f64::max(d, file.sum.abs()));
    let near = |a: f64, b: f64| close(a, b, 1e-9) || (a - b).abs() <= 1e-9 * scale;
    let mut ok = true;
    let mut fail = |class: &str, what: String| {
        ctx.violation(class, &format!("{}: {}", what, label), replay.clone());
        ok = false;
    };
    if !near(printed.utils[0], eval.util) {
        fail("utility-one", format!("player_one_utility {} but the printed strategies give {} on the file's payoffs", printed.utils[0], eval.util));
    }
    if !near(printed.utils[1], file.sum - eval.util) {
        fail("utility-two", format!("player_two_utility {} but the printed strategies give {} on player two's own payoffs (constant {})", printed.utils[1], file.sum - eval.util, file.sum));
    }
    if !near(printed.utils[0] + printed.utils[1], file.sum) {
        fail("utilities-sum", format!("utilities {} + {} do not add up to the file's constant {}", printed.utils[0], printed.utils[1], file.sum));
    }
    for pl in 0..2 {
        if !near(printed.regrets[pl], eval.regrets[pl]) {
            fail("regret", format!("player {} regret {} but the printed strategies have regret {}", pl + 1, printed.regrets[pl], eval.regrets[pl]));
        }
    }
    if printed.regret != f64::max(printed.regrets[0], printed.regrets[1]) {
        fail("regret-max", format!("regret {} is not the larger of {:?}", printed.regret, printed.regrets));
    }
    ok
}

pub fn files_of(name: &str, tree: &crate::tree::Tree, thorough: bool) -> Vec<GameFile> {
    let mut res = Vec::new();
    // (the JSON text in one of three layouts; two of them stored under an unknown extension)
    if let Some(file) = crate::cli::json_file_layout(name, tree, name.len()) {
        res.push(file);
    }
    let styles = EfgStyle::all();
    for (si, style) in styles.iter().enumerate() {
        if thorough || si == 0 || si == styles.len() - 1 || (name.len() + si) % 3 == 0 {
            res.push(efg_file(name, tree, *style));
        }
    }
    res
}

pub fn run(ctx: &Ctx) -> i32 {
    let games = cli_games(ctx.thorough());
    let dir = work_dir("C15");
    let mut files: Vec<(GameFile, String)> = Vec::new();
    for (name, tree) in &games {
        for file in files_of(name, tree, ctx.thorough()) {
            let path = write_file(&dir, &format!("{}-{}.{}", files.len(), sanitize(&file.label), crate::cli::file_ext(&file)), &file.text);
            files.push((file, path));
        }
    }
    // one outcome number used at a terminal AND at an interior node, with a non-zero constant
    {
        use crate::tree::{p, t};
        let text = "EFG 2 R \"shared id\" { \"one\" \"two\" }\np \"\" 1 1 \"r\" { \"L\" \"R\" } 0\nt \"\" 1 \"fee\" { 1, 1 }\np \"\" 2 1 \"z\" { \"l\" \"r\" } 1\nt \"\" 2 \"\" { 3, -3 }\nt \"\" 3 \"\" { -1, 1 }\n";
        let model = p(0, "r", vec![("L", t(1.0)), ("R", p(1, "z", vec![("l", t(4.0)), ("r", t(0.0))]))]);
        let file = GameFile { label: "shared_outcome_id:sum2".into(), text: text.to_string(), format: "efg", model, sum: 2.0, canonical_order: true };
        let path = write_file(&dir, &format!("{}-shared-id.efg", files.len()), &file.text);
        files.push((file, path));
        let text = "EFG 2 R \"shared id chance\" { \"one\" \"two\" }\np \"\" 1 1 \"r\" { \"L\" \"R\" } 0\nt \"\" 1 \"fee\" { 1, 1 }\nc \"\" 1 \"k\" { \"o0\" 1/4 \"o1\" 3/4 } 1\nt \"\" 2 \"\" { 3, -3 }\nt \"\" 3 \"\" { -1, 1 }\n";
        let model = p(0, "r", vec![("L", t(1.0)), ("R", Tree::C(None, vec![(1.0, t(4.0)), (3.0, t(0.0))]))]);
        let file = GameFile { label: "shared_outcome_id_chance:sum2".into(), text: text.to_string(), format: "efg", model, sum: 2.0, canonical_order: true };
        let path = write_file(&dir, &format!("{}-shared-id-chance.efg", files.len()), &file.text);
        files.push((file, path));
    }
    ctx.set("games", json!(games.len()));
    ctx.set("files", json!(files.len()));
    ctx.set("efg_styles", json!(EfgStyle::all().iter().map(|s| s.name()).collect::<Vec<_>>()));
    let budgets: &[u64] = &[1, 50];
    let parallel: &[usize] = &[1, 2];
    // 0.5 is a probability the first iterate really has (uniform over two actions): the threshold
    // then coincides with a probability
    let clips: &[f64] = &[0.0, 0.3, 0.5];
    let methods = ["full", "sampled", "external"];
    ctx.set("options", json!({"methods": methods, "discounts": DISCOUNTS, "max_iters": budgets, "parallel": parallel, "clip_threshold": clips}));
    files.par_iter().enumerate().for_each(|(fi, (file, path))| {
        if ctx.stopped() {
            return;
        }
        let mut combo = 0usize;
        for method in methods {
            for (di, discount) in DISCOUNTS.iter().enumerate() {
                for &iters in budgets {
                    for &par in parallel {
                        for &clip in clips {
                            combo += 1;
                            // the quick tier takes a rotating quarter of the one-thread option product
                            // per file and a twentieth of the two-thread one (every process that
                            // builds a thread pool slows every other one down on this machine)
                            let _ = di;
                            if !ctx.thorough() && ((par == 1 && (combo + fi) % 4 != 0) || (par == 2 && (combo + fi) % 20 != 0)) {
                                continue;
                            }
                            let args: Vec<String> = vec!["-m".into(), method.into(), "-d".into(), discount.to_string(), "-t".into(), iters.to_string(), "-p".into(), par.to_string(), "-c".into(), clip.to_string()];
                            check_run(ctx, file, path, &args);
                        }
                    }
                }
            }
        }
        if fi % 97 == 0 {
            ctx.sample("file", json!({"label": file.label, "format": file.format, "sum": file.sum, "text": file.text.chars().take(600).collect::<String>()}));
        }
    });
    let _ = std::fs::remove_dir_all(&dir);
    ctx.assume("files are generated from the harness's own file-level models, so 'the game exactly as written in the file' is the model by construction; duplicate JSON object keys and Gambit constructs the generator does not emit (omitted action lists, comments) are not covered");
    ctx.assume("the quick tier runs a rotating quarter of the one-thread option product and a twentieth of the two-thread one per file (all of it in the thorough tier)");
    ctx.finish(
        "every generated file (JSON + Gambit styles) of the tiny universe and curated families x {full, sampled, external} x 5 discounts x budgets {1, 50} x parallel {1, 2} x clip {0, 0.3, 0.5}; states = program runs; every run is non-trivial (a full parse-solve-print cycle checked against the reference evaluation)",
        true,
        "the real binary is run on every enumerated (file, option combination); what it prints is parsed and re-evaluated by the independent reference evaluator on the file-level model the file was generated from",
    )
}

pub fn replay(ctx: &Ctx, val: &Value) -> i32 {
    let dir = work_dir("C15-replay");
    let format: &'static str = if val["format"].as_str() == Some("json") { "json" } else { "efg" };
    let file = GameFile { label: val["label"].as_str().unwrap_or("replay").to_string(), text: val["file"].as_str().unwrap().to_string(), format, model: crate::tree::Tree::from_replay(&val["model"]), sum: val["sum"].as_f64().unwrap_or(0.0), canonical_order: false };
    let path = write_file(&dir, &format!("replay.{}", crate::cli::file_ext(&file)), &file.text);
    let args: Vec<String> = val["args"].as_array().unwrap().iter().map(|a| a.as_str().unwrap().to_string()).collect();
    let ok = check_run(ctx, &file, &path, &args);
    let _ = std::fs::remove_dir_all(&dir);
    println!("replay {}", if ok { "passes" } else { "fails" });
    if ok {
        0
    } else {
        1
    }
}
