//! C13 — the named view of a strategy is complete, consistent, round-trips and tells its length.
//! Enumerated: every valid skeleton (incl. games with only single-action infosets and with none) x
//! profiles {grid (with zeros), solver output of each method for T in {0,1,5}, truncated grid
//! profiles}; the iterator contract is explored as an operation sequence: at every prefix length of
//! the outer iterator and of every inner iterator, len() and size_hint() are queried and compared
//! with the number of items subsequently yielded; fusedness after None.
use super::{profiles, universe_summary};
use crate::framework::{guarded, Ctx};
use crate::refmodel::{infosets, Profile};
use crate::subject::{build, inject, profile_from_json, profile_json, G, S};
use crate::tree::Tree;
use crate::universe::{families, fill_distinct, skeletons, Bounds};
use cfr::SolveMethod;
use rayon::prelude::*;
use serde_json::{json, Value};
use std::collections::BTreeMap;

fn ulps(a: f64, b: f64) -> u64 {
    if a == b {
        0
    } else if a.is_nan() || b.is_nan() || a.signum() != b.signum() {
        u64::MAX
    } else {
        a.to_bits().abs_diff(b.to_bits())
    }
}

type Listing = Vec<(String, Vec<(String, f64)>)>;

fn listing(strat: &S, pl: usize) -> Listing {
    let named = strat.as_named();
    let iter = match named {
        [one, two] => {
            if pl == 0 {
                one
            } else {
                two
            }
        }
    };
    iter.map(|(info, acts)| (info.clone(), acts.map(|(a, p)| (a.clone(), p)).collect()))
        .collect()
}

/// all clauses of C13 for one strategy object; returns (class, description) of the first failure
fn check_strategy(tree: &Tree, game: &G, strat: &S, lengths: &mut u64) -> Result<(), (String, String)> {
    let infos = infosets(tree);
    let names = cfr::verif::infoset_names(game);
    let raw = cfr::verif::raw_probs(strat);
    for pl in 0..2 {
        // --- content ---------------------------------------------------------------------------
        let list = listing(strat, pl);
        let mut seen: BTreeMap<&str, &Vec<(String, f64)>> = BTreeMap::new();
        for (info, acts) in &list {
            if seen.insert(info.as_str(), acts).is_some() {
                return Err(("infoset-twice".into(), format!("player {} infoset {} listed twice", pl + 1, info)));
            }
        }
        for desc in &infos[pl] {
            let acts = seen.get(desc.name.as_str()).ok_or_else(|| {
                ("infoset-missing".to_string(), format!("player {} infoset {} not listed", pl + 1, desc.name))
            })?;
            if desc.actions.len() == 1 {
                if acts.len() != 1 || acts[0].0 != desc.actions[0] || acts[0].1 != 1.0 {
                    return Err(("single-wrong".into(), format!("single-action infoset {} listed as {:?}", desc.name, acts)));
                }
            } else {
                // the dense probabilities of this infoset
                let mut offset = 0;
                let mut dense: Option<&[f64]> = None;
                for (name, actions) in &names[pl] {
                    if **name == desc.name {
                        dense = Some(&raw[pl][offset..offset + actions.len()]);
                    }
                    offset += actions.len();
                }
                let dense = dense.ok_or_else(|| ("infoset-unknown".to_string(), format!("{} not in the game", desc.name)))?;
                let want: Vec<(String, f64)> = desc
                    .actions
                    .iter()
                    .cloned()
                    .zip(dense.iter().copied())
                    .filter(|(_, p)| *p > 0.0)
                    .collect();
                if **acts != want {
                    return Err(("actions-wrong".into(), format!("infoset {} lists {:?} but the positive-probability actions are {:?}", desc.name, acts, want)));
                }
                let sum: f64 = acts.iter().map(|(_, p)| p).sum();
                if (sum - 1.0).abs() > 1e-12 {
                    return Err(("sum-not-one".into(), format!("infoset {} probabilities sum to {}", desc.name, sum)));
                }
            }
        }
        if list.len() != infos[pl].len() {
            return Err(("extra-infoset".into(), format!("player {} lists {} infosets, the game has {}", pl + 1, list.len(), infos[pl].len())));
        }
        // --- iterator contract: every prefix of the outer and of every inner iterator -------------
        let total = list.len();
        let [one, two] = strat.as_named();
        let mut outer = if pl == 0 { one } else { two };
        for taken in 0..=total {
            let want = total - taken;
            *lengths += 1;
            if outer.size_hint() != (want, Some(want)) {
                return Err(("outer-size-hint".into(), format!("player {} outer size_hint {:?} after {} of {} items", pl + 1, outer.size_hint(), taken, total)));
            }
            let len = guarded(|| outer.len()).map_err(|m| ("outer-len-panic".to_string(), m))?;
            if len != want {
                return Err(("outer-len".into(), format!("outer len {} after {} of {} items", len, taken, total)));
            }
            match outer.next() {
                None => {
                    if taken != total {
                        return Err(("outer-short".into(), format!("outer iterator ended after {} of {}", taken, total)));
                    }
                }
                Some((info, mut inner)) => {
                    let inner_total = list[taken].1.len();
                    for inner_taken in 0..=inner_total {
                        let want = inner_total - inner_taken;
                        *lengths += 1;
                        if inner.size_hint() != (want, Some(want)) {
                            return Err(("inner-size-hint".into(), format!("infoset {} inner size_hint {:?} with {} items left", info, inner.size_hint(), want)));
                        }
                        let len = guarded(|| inner.len()).map_err(|m| ("inner-len-panic".to_string(), m))?;
                        if len != want {
                            return Err(("inner-len".into(), format!("infoset {} inner len {} with {} items left", info, len, want)));
                        }
                        let item = inner.next();
                        if item.is_some() != (inner_taken < inner_total) {
                            return Err(("inner-count".into(), format!("infoset {} inner iterator yields a different number of items on a second pass", info)));
                        }
                    }
                    if inner.next().is_some() || inner.next().is_some() {
                        return Err(("inner-not-fused".into(), format!("infoset {} inner iterator yields after None", info)));
                    }
                }
            }
        }
        if outer.next().is_some() || outer.next().is_some() {
            return Err(("outer-not-fused".into(), "outer iterator yields after None".into()));
        }
    }
    // --- round trip ------------------------------------------------------------------------------
    let back = game
        .from_named(strat.as_named())
        .map_err(|e| ("roundtrip-rejected".to_string(), format!("importing the named view fails with {:?}", e)))?;
    let again = cfr::verif::raw_probs(&back);
    for pl in 0..2 {
        if raw[pl].len() != again[pl].len() || raw[pl].iter().zip(again[pl].iter()).any(|(a, b)| ulps(*a, *b) > 8) {
            return Err(("roundtrip-differs".into(), format!("player {} {:?} became {:?}", pl + 1, raw[pl], again[pl])));
        }
    }
    // the view is a set of entries: listing it in another order (rotations, reversal of the infosets,
    // reversal of every action list) is still that view and must import to the same profile
    let lists = [listing(strat, 0), listing(strat, 1)];
    let longest = lists[0].len().max(lists[1].len());
    for variant in 0..=longest.min(4) {
        let arrange = |list: &Listing| -> Listing {
            let n = list.len();
            if variant == 0 {
                list.iter().rev().map(|(i, acts)| (i.clone(), acts.iter().rev().cloned().collect())).collect()
            } else {
                (0..n).map(|k| list[(k + variant) % n].clone()).collect()
            }
        };
        let reordered = game
            .from_named([arrange(&lists[0]), arrange(&lists[1])])
            .map_err(|e| ("roundtrip-rejected".to_string(), format!("importing the named view with its entries in another order (variant {}) fails with {:?}", variant, e)))?;
        let again = cfr::verif::raw_probs(&reordered);
        for pl in 0..2 {
            if raw[pl].len() != again[pl].len() || raw[pl].iter().zip(again[pl].iter()).any(|(a, b)| ulps(*a, *b) > 8) {
                return Err(("roundtrip-differs".into(), format!("player {} {:?} became {:?} when the view's entries are imported in another order (variant {})", pl + 1, raw[pl], again[pl], variant)));
            }
        }
    }
    let back_eq = game
        .from_named_eq(strat.as_named())
        .map_err(|e| ("roundtrip-rejected".to_string(), format!("importing the named view (eq path) fails with {:?}", e)))?;
    if back_eq != back {
        return Err(("roundtrip-paths-differ".into(), "from_named and from_named_eq disagree on the named view".into()));
    }
    Ok(())
}

#[derive(Debug, Clone)]
pub enum Source {
    Grid(Profile),
    Truncated(Profile, f64),
    Solved(usize, u64),
}

impl Source {
    fn to_json(&self) -> Value {
        match self {
            Source::Grid(p) => json!({"grid": profile_json(p)}),
            Source::Truncated(p, h) => json!({"truncated": profile_json(p), "threshold": h}),
            Source::Solved(m, t) => json!({"solved": m, "iters": t}),
        }
    }
    fn from_json(val: &Value) -> Source {
        if let Some(p) = val.get("grid") {
            Source::Grid(profile_from_json(p))
        } else if let Some(p) = val.get("truncated") {
            Source::Truncated(profile_from_json(p), val["threshold"].as_f64().unwrap())
        } else {
            Source::Solved(val["solved"].as_u64().unwrap() as usize, val["iters"].as_u64().unwrap())
        }
    }
}

const METHODS: [SolveMethod; 3] = [SolveMethod::Full, SolveMethod::Sampled, SolveMethod::External];

pub fn check_case(ctx: &Ctx, tree: &Tree, source: &Source) -> bool {
    let replay = json!({"tree": tree.to_replay(), "source": source.to_json()});
    let mut lengths = 0u64;
    let res = guarded(|| -> Result<(), (String, String)> {
        let game = build(tree).map_err(|e| ("setup".to_string(), format!("valid game rejected: {:?}", e)))?;
        let strat = match source {
            Source::Grid(prof) => inject(&game, tree, prof).map_err(|e| ("setup".to_string(), format!("{:?}", e)))?,
            Source::Truncated(prof, h) => {
                let mut s = inject(&game, tree, prof).map_err(|e| ("setup".to_string(), format!("{:?}", e)))?;
                s.truncate(*h);
                s
            }
            Source::Solved(m, t) => game.solve(METHODS[*m], *t, 0.0, 1, None).map_err(|e| ("setup".to_string(), format!("{:?}", e)))?.0,
        };
        check_strategy(tree, &game, &strat, &mut lengths)
    });
    ctx.add(&ctx.transitions, lengths);
    match res {
        Ok(Ok(())) => true,
        Ok(Err((class, what))) => {
            ctx.violation(&class, &format!("{} [{}] on {}", what, source.to_json(), tree.show()), replay);
            false
        }
        Err(msg) => {
            ctx.violation("panic", &format!("{} on {}", msg, tree.show()), replay);
            false
        }
    }
}

pub fn run(ctx: &Ctx) -> i32 {
    let bounds = if ctx.thorough() {
        Bounds { max_internal: 4, max_arity: 3, max_leaves: 6, chance_infosets: false, degenerate: true }
    } else {
        Bounds { max_internal: 3, max_arity: 3, max_leaves: 6, chance_infosets: false, degenerate: true }
    };
    let skels = skeletons(&bounds);
    universe_summary(ctx, &bounds, skels.len());
    let mut games: Vec<Tree> = skels.iter().map(|s| fill_distinct(s, 0)).collect();
    games.extend(families().into_iter().map(|(_, t)| t));
    // (infosets of one player that list the same action names in different orders, and more)
    games.extend(super::c14::permutation_games().into_iter().map(|(_, t)| t));
    games.par_iter().enumerate().for_each(|(gi, tree)| {
        if ctx.stopped() {
            return;
        }
        let mut sources = Vec::new();
        let (profs, _) = profiles(tree, false, 200);
        for prof in &profs {
            sources.push(Source::Grid(prof.clone()));
            for h in [0.25, 0.5, 0.6] {
                sources.push(Source::Truncated(prof.clone(), h));
            }
        }
        for m in 0..3 {
            for t in [0, 1, 5] {
                sources.push(Source::Solved(m, t));
            }
        }
        // extreme ratios inside an infoset: one action at (what rounds to) probability one next to
        // actions that are tiny but positive, and so must be listed
        if let Some(first) = profs.first() {
            for tiny in [1e-20, 5e-324] {
                for lead in [0usize, 1] {
                    let mut prof = first.clone();
                    for pl in 0..2 {
                        for probs in prof[pl].values_mut() {
                            let len = probs.len();
                            for (i, p) in probs.iter_mut().enumerate() {
                                *p = if i == lead % len { 1.0 } else { tiny };
                            }
                        }
                    }
                    sources.push(Source::Grid(prof));
                }
            }
        }
        let singles = infosets(tree).iter().flat_map(|i| i.iter()).filter(|d| d.actions.len() == 1).count();
        for (si, source) in sources.iter().enumerate() {
            check_case(ctx, tree, source);
            ctx.evaluations.fetch_add(1, std::sync::atomic::Ordering::Relaxed);
            ctx.states.fetch_add(1, std::sync::atomic::Ordering::Relaxed);
            ctx.validated.fetch_add(1, std::sync::atomic::Ordering::Relaxed);
            if super::has_decision(tree) || singles > 0 {
                ctx.nontrivial.fetch_add(1, std::sync::atomic::Ordering::Relaxed);
            }
            if gi % 1499 == 0 && si % 17 == 0 {
                ctx.sample("game+strategy source", json!({"tree": tree.show(), "source": source.to_json()}));
            }
        }
    });
    // the Strategies object as a state machine: the named view is complete, consistent and
    // round-trips at every state reachable by <= 3 operations
    super::explore_api(ctx, "state-machine-view", &|tree, game, obj, _, ops| {
        let mut lengths = 0u64;
        check_strategy(tree, game, obj, &mut lengths).map_err(|(c, w)| format!("{}: {} after {:?}", c, w, ops))
    });
    // wider infosets (4 and 6 actions) with dyadic and non-dyadic profiles, truncated at every one of
    // their probabilities: an action exactly at the threshold next to smaller and larger ones
    for k in [4usize, 6] {
        let tree = Tree::P(0, "w".to_string(), (0..k).map(|i| (crate::universe::ACTS.get(i).map(|a| a.to_string()).unwrap_or(format!("x{}", i)), Tree::T(i as f64))).collect());
        let half: Vec<f64> = (0..k).map(|i| if i + 1 == k { 0.5f64.powi(i as i32) } else { 0.5f64.powi(i as i32 + 1) }).collect();
        let ramp_total: f64 = (1..=k).map(|i| i as f64).sum();
        let ramp: Vec<f64> = (1..=k).map(|i| i as f64 / ramp_total).collect();
        for probs in [half, ramp] {
            let prof: crate::refmodel::Profile = [[("w".to_string(), probs.clone())].into_iter().collect(), Default::default()];
            check_case(ctx, &tree, &Source::Grid(prof.clone()));
            for h in probs.iter() {
                check_case(ctx, &tree, &Source::Truncated(prof.clone(), *h));
                ctx.case(1, true);
                ctx.count("wide_infoset_truncations", 1);
            }
        }
    }
    ctx.finish(
        "every valid skeleton within the bounds and the curated families x {every grid profile, each truncated at 0.25, 0.5 (values the grid really has) and 0.6, solver output of Full/Sampled/External for T in {0,1,5}}; for each, every prefix of the outer iterator and of every inner iterator (transitions = number of (iterator state) points at which len/size_hint were compared with the items that followed); non-trivial = the game has at least one infoset",
        true,
        "E-INPUT + operation-sequence exploration of the two iterators: Strategies::as_named of every enumerated strategy, compared with the tree's own infoset list and the dense probabilities; round trip through from_named / from_named_eq",
    )
}

pub fn replay(ctx: &Ctx, val: &Value) -> i32 {
    let tree = Tree::from_replay(&val["tree"]);
    let ok = check_case(ctx, &tree, &Source::from_json(&val["source"]));
    println!("replay {}", if ok { "passes" } else { "fails" });
    if ok { 0 } else { 1 }
}
