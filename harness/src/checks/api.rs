//! Explicit-state exploration of the `Strategies` object as a small state machine.
//!
//! State = the profile the object holds. Operations (the alphabet): `truncate(h)` for a few
//! thresholds, "re-import" (`from_named(as_named())`), and "clone, then continue on the clone".
//! Breadth-first search from every initial grid profile; a state is identified by the canonical
//! form of the MODEL profile (the statement of C18 applied to the stored profile; bit patterns),
//! and every state is re-reached on a FRESH real object by replaying the operation list that
//! leads to it (live objects are not copied around by the explorer). At every state the caller's
//! invariant is evaluated on (real object, model profile); at every transition the object must
//! land on the model's successor state.
use crate::checks::c18::ref_truncate;
use crate::framework::{close, guarded, Ctx};
use crate::refmodel::Profile;
use crate::subject::{build, inject, read_profile, G, S};
use crate::tree::Tree;
use serde_json::{json, Value};
use std::collections::{BTreeMap, VecDeque};

#[derive(Debug, Clone, Copy, PartialEq)]
pub enum Op {
    Truncate(f64),
    Reimport,
    Clone,
}

pub const ALPHABET: [Op; 6] = [Op::Truncate(0.25), Op::Truncate(0.5), Op::Truncate(0.6), Op::Truncate(0.3), Op::Reimport, Op::Clone];

pub fn ops_json(ops: &[Op]) -> Value {
    json!(ops
        .iter()
        .map(|op| match op {
            Op::Truncate(h) => json!({"truncate": h}),
            Op::Reimport => json!("reimport"),
            Op::Clone => json!("clone"),
        })
        .collect::<Vec<_>>())
}

pub fn ops_from_json(val: &Value) -> Vec<Op> {
    val.as_array()
        .map(|arr| {
            arr.iter()
                .map(|v| match v {
                    Value::String(s) if s == "clone" => Op::Clone,
                    Value::String(_) => Op::Reimport,
                    other => Op::Truncate(other["truncate"].as_f64().unwrap()),
                })
                .collect()
        })
        .unwrap_or_default()
}

/// the model's transition function
pub fn model_step(state: &Profile, op: Op) -> Profile {
    match op {
        Op::Truncate(h) => ref_truncate(state, h),
        // importing the named view normalises every infoset by its (rounded) sum: identity up to an ulp
        Op::Reimport | Op::Clone => state.clone(),
    }
}

fn canon(state: &Profile) -> Vec<u64> {
    // (re-import may move a value by an ulp: states are identified after rounding to 2^-40)
    state.iter().flat_map(|m| m.values()).flat_map(|v| v.iter().map(|p| ((p * (1u64 << 40) as f64).round() as u64))).collect()
}

/// replay `ops` on a fresh object
pub fn replay<'a>(game: &'a G, tree: &Tree, init: &Profile, ops: &[Op]) -> Result<S<'a>, String> {
    let mut strat = inject(game, tree, init).map_err(|e| format!("import failed: {:?}", e))?;
    for op in ops {
        match op {
            Op::Truncate(h) => strat.truncate(*h),
            Op::Reimport => {
                let [one, two] = strat.as_named();
                let named = [one.map(|(i, acts)| (i.clone(), acts.map(|(a, p)| (a.clone(), p)).collect::<Vec<_>>())).collect::<Vec<_>>(), two.map(|(i, acts)| (i.clone(), acts.map(|(a, p)| (a.clone(), p)).collect::<Vec<_>>())).collect::<Vec<_>>()];
                strat = game.from_named(named).map_err(|e| format!("re-import of the named view failed: {:?}", e))?;
            }
            Op::Clone => {
                let copy = strat.clone();
                strat = copy;
            }
        }
    }
    Ok(strat)
}

pub struct Explored {
    pub states: u64,
    pub transitions: u64,
    pub max_depth: usize,
}

/// BFS from `init`; `invariant(object, model state, ops)` returns Err(description) on a violation.
/// Violations are reported through `ctx` under `class`; the search of this root stops at the first.
pub fn explore(ctx: &Ctx, tree: &Tree, game: &G, init: &Profile, max_depth: usize, class: &str, invariant: &dyn Fn(&S, &Profile, &[Op]) -> Result<(), String>) -> Explored {
    let mut res = Explored { states: 0, transitions: 0, max_depth: 0 };
    // the initial model state is the profile as stored after import
    let start = match guarded(|| inject(game, tree, init).map_err(|e| format!("{:?}", e)).and_then(|s| read_profile(tree, &s))) {
        Ok(Ok(p)) => p,
        _ => return res,
    };
    let mut seen: BTreeMap<Vec<u64>, ()> = BTreeMap::new();
    let mut frontier: VecDeque<(Vec<Op>, Profile)> = VecDeque::new();
    seen.insert(canon(&start), ());
    frontier.push_back((vec![], start));
    while let Some((ops, model)) = frontier.pop_front() {
        res.states += 1;
        res.max_depth = res.max_depth.max(ops.len());
        let replay_json = json!({"tree": tree.to_replay(), "profile": crate::subject::profile_json(init), "ops": ops_json(&ops), "api": true});
        // the real object at this state, and the model's view of it
        let verdict = guarded(|| -> Result<(), String> {
            let strat = replay(game, tree, init, &ops)?;
            let held = read_profile(tree, &strat)?;
            for pl in 0..2 {
                for (name, want) in &model[pl] {
                    let got = held[pl].get(name).ok_or_else(|| format!("infoset {} missing from the named view", name))?;
                    if got.len() != want.len() || got.iter().zip(want.iter()).any(|(a, b)| !close(*a, *b, 1e-12)) {
                        return Err(format!("after {:?} the object holds {:?} at infoset {} but the statement gives {:?}", ops, got, name, want));
                    }
                }
            }
            invariant(&strat, &model, &ops)
        });
        match verdict {
            Ok(Ok(())) => {}
            Ok(Err(msg)) | Err(msg) => {
                ctx.violation(class, &format!("{} on {}", msg, tree.show()), replay_json);
                return res;
            }
        }
        if ops.len() >= max_depth {
            continue;
        }
        for op in ALPHABET {
            res.transitions += 1;
            let next = model_step(&model, op);
            let mut path = ops.clone();
            path.push(op);
            // clone / re-import do not change the state: they are explored as edges (the object at
            // the end of `path` is checked once, as a state of its own depth) but only while new
            let key = {
                let mut k = canon(&next);
                if op == Op::Clone || op == Op::Reimport {
                    k.push(if op == Op::Clone { 1 } else { 2 });
                    k.push(path.iter().filter(|o| matches!(o, Op::Clone | Op::Reimport)).count() as u64);
                }
                k
            };
            if seen.insert(key, ()).is_none() {
                frontier.push_back((path, next));
            }
        }
    }
    res
}

pub fn build_game(tree: &Tree) -> Option<G> {
    build(tree).ok()
}
