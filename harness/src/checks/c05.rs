//! C05 — every solve returns a well-formed strategy profile and never panics.
//! Enumerated: (A) small games x 3 methods x the full parameter alphabet (1792 tuples + 5 presets +
//! None) x budgets {0,1,2,3,7}; (B) the larger universe x presets/None x budgets x thresholds
//! {-1, 0, 0.5, +inf, NaN}; (C) thread counts {0, 2, 3, 16, 64} on a sub-product (real pool, under
//! a watchdog); (D) the thread-overflow boundary; (E) every draw history of the sampled methods for
//! budgets <= 3 / 2 on the extreme fallback tuples.
//! Oracle: Ok (or ThreadOverflow exactly at the boundary), never Err at one thread, no panic, no
//! hang; through as_named, get_info and the dense vector every multi-action infoset carries finite
//! non-negative probabilities summing to one; bounds non-negative, not NaN, finite once an
//! iteration ran.
use super::c08::{method_name, ParamSpec, METHODS};
use crate::explore::{explore, Fallback, Pinned};
use crate::framework::{guarded, Ctx};
use crate::refcfr::{RefMethod, RefParams};
use crate::refmodel::infosets;
use crate::runner::{run_impl, ImplOut};
use crate::subject::build;
use crate::tree::Tree;
use crate::universe::{families, fill_distinct, skeletons, Bounds};
use cfr::{PlayerNum, SolveError};
use rayon::prelude::*;
use serde_json::{json, Value};
use std::collections::BTreeMap;
use std::sync::mpsc;
use std::time::Duration;

fn num(x: f64) -> Value {
    if x.is_finite() {
        json!(x)
    } else {
        json!(format!("{}", x))
    }
}

/// the clauses about what is returned
pub fn wellformed(tree: &Tree, out: &ImplOut, budget: u64) -> Result<(), (String, String)> {
    for pl in 0..2 {
        for d in &infosets(tree)[pl] {
            if d.actions.len() < 2 {
                continue;
            }
            let probs = &out.avg[pl][&d.name];
            let sum: f64 = probs.iter().sum();
            if probs.iter().any(|p| !p.is_finite() || *p < 0.0) || !((sum - 1.0).abs() <= 1e-9) {
                return Err(("not-a-distribution".into(), format!("player {} infoset {} has probabilities {:?} (named view; sum {})", pl + 1, d.name, probs, sum)));
            }
        }
        if out.raw[pl].iter().any(|p| !p.is_finite() || *p < 0.0) {
            return Err(("not-a-distribution".into(), format!("player {} dense probabilities {:?}", pl + 1, out.raw[pl])));
        }
        let b = out.bounds[pl];
        if b.is_nan() || b < 0.0 {
            return Err(("bound-invalid".into(), format!("player {} bound is {}", pl + 1, b)));
        }
        if budget > 0 && b.is_infinite() {
            return Err(("bound-infinite".into(), format!("player {} bound is infinite after {} iterations", pl + 1, budget)));
        }
    }
    Ok(())
}

#[derive(Debug, Clone)]
pub struct Case {
    pub tree: Tree,
    pub method: RefMethod,
    pub spec: ParamSpec,
    pub budget: u64,
    pub threshold: f64,
    pub threads: usize,
    pub seed: u64,
}

impl Case {
    pub fn to_json(&self) -> Value {
        json!({"tree": self.tree.to_replay(), "method": method_name(self.method), "params": self.spec.to_json(), "budget": self.budget, "threshold": num(self.threshold), "threads": self.threads, "seed": self.seed})
    }
    pub fn from_json(val: &Value) -> Case {
        let f = |v: &Value| match v {
            Value::String(s) => s.parse::<f64>().unwrap(),
            o => o.as_f64().unwrap(),
        };
        Case {
            tree: Tree::from_replay(&val["tree"]),
            method: super::c08::method_from(val["method"].as_str().unwrap()),
            spec: ParamSpec::from_json(&val["params"]),
            budget: val["budget"].as_u64().unwrap(),
            threshold: f(&val["threshold"]),
            threads: val["threads"].as_u64().unwrap() as usize,
            seed: val["seed"].as_u64().unwrap(),
        }
    }
    fn describe(&self) -> String {
        format!("[{} {} T={} r={} threads={}] on {}", method_name(self.method), self.spec.to_json(), self.budget, self.threshold, self.threads, self.tree.show())
    }
}

fn evaluate(ctx: &Ctx, case: &Case, res: Result<Result<ImplOut, String>, String>) -> bool {
    match res {
        Err(msg) => {
            ctx.violation("panic", &format!("{} {}", msg, case.describe()), case.to_json());
            false
        }
        Ok(Err(msg)) => {
            ctx.violation("error-returned", &format!("{} {}", msg, case.describe()), case.to_json());
            false
        }
        Ok(Ok(out)) => match wellformed(&case.tree, &out, case.budget) {
            Ok(()) => true,
            Err((class, what)) => {
                let class = match case.spec {
                    ParamSpec::Tuple(p) if class == "not-a-distribution" && p.w < 0.0 && p.w.is_finite() => "not-a-distribution:finite-negative-no_positive".to_string(),
                    _ => class,
                };
                ctx.violation(&class, &format!("{} {}", what, case.describe()), case.to_json());
                false
            }
        },
    }
}

pub fn check_case(ctx: &Ctx, case: &Case) -> bool {
    let run = {
        let case = case.clone();
        move || {
            guarded(|| -> Result<ImplOut, String> {
                let game = build(&case.tree).map_err(|e| format!("valid game rejected: {:?}", e))?;
                let decider = Pinned::new(BTreeMap::new(), Fallback::Hash(case.seed));
                let out = run_impl(&case.tree, &game, case.method, case.budget, case.threshold, case.threads, None, case.spec.implementation(), &decider)?;
                // the evaluation of what was returned must be defined as well (only meaningful for a
                // well-formed profile; an ill-formed one is reported by `wellformed` below)
                if wellformed(&case.tree, &out, case.budget).is_err() {
                    return Ok(out);
                }
                let strat = crate::subject::inject(&game, &case.tree, &out.avg).map_err(|e| format!("returned profile is not importable: {:?}", e))?;
                let info = strat.get_info();
                if !info.regret().is_finite() || !info.player_utility(PlayerNum::One).is_finite() {
                    return Err(format!("regret {} / utility {} of the returned profile", info.regret(), info.player_utility(PlayerNum::One)));
                }
                Ok(out)
            })
        }
    };
    let res = if case.threads == 1 {
        run()
    } else {
        // watchdog: a multi-threaded solve that does not return is a hang, not a machinery failure;
        // one multi-threaded solve at a time (building thread pools concurrently is slow here)
        let _gate = crate::multi::POOL_GATE.lock().unwrap_or_else(|e| e.into_inner());
        let (tx, rx) = mpsc::channel();
        std::thread::spawn(move || {
            let _ = tx.send(run());
        });
        match rx.recv_timeout(Duration::from_secs(60)) {
            Ok(res) => res,
            Err(_) => {
                ctx.violation("hang", &format!("no return within 60 s {}", case.describe()), case.to_json());
                return false;
            }
        }
    };
    evaluate(ctx, case, res)
}

fn tuples() -> Vec<RefParams> {
    let ab = [f64::NEG_INFINITY, -1e3, -1.5, 0.0, 0.5, 1.0, 1e3, f64::INFINITY];
    let mut res = Vec::new();
    for a in ab {
        for b in ab {
            for g in [0.0, 0.5, 2.0, 1e3] {
                for w in [f64::NEG_INFINITY, -1e3, -1.0, 0.0, 1.0, 1e3, f64::INFINITY] {
                    res.push(RefParams { a, b, g, w });
                }
            }
        }
    }
    res
}

fn presets() -> Vec<ParamSpec> {
    let mut v = vec![ParamSpec::Default];
    v.extend((0..5).map(ParamSpec::Preset));
    v
}

pub fn run(ctx: &Ctx) -> i32 {
    let all = tuples();
    ctx.set("param_tuples", json!(all.len()));
    // (A)
    let small = if ctx.thorough() {
        Bounds { max_internal: 2, max_arity: 3, max_leaves: 6, chance_infosets: true, degenerate: true }
    } else {
        Bounds { max_internal: 2, max_arity: 2, max_leaves: 4, chance_infosets: true, degenerate: true }
    };
    let games_a: Vec<Tree> = skeletons(&small).iter().enumerate().map(|(i, s)| fill_distinct(s, i)).collect();
    ctx.set("universe_A_games", json!(games_a.len()));
    let budgets = [0u64, 1, 2, 3, 7];
    games_a.par_iter().enumerate().for_each(|(gi, tree)| {
        if ctx.stopped() {
            return;
        }
        let mut specs: Vec<ParamSpec> = all.iter().map(|p| ParamSpec::Tuple(*p)).collect();
        specs.extend(presets());
        for (si, spec) in specs.iter().enumerate() {
            for method in METHODS {
                for budget in budgets {
                    let case = Case { tree: tree.clone(), method, spec: *spec, budget, threshold: 0.0, threads: 1, seed: ctx.seed ^ (si as u64) << 4 ^ budget };
                    check_case(ctx, &case);
                    ctx.case(budget, super::has_decision(tree) && budget > 0);
                }
            }
            if gi % 41 == 0 && si % 601 == 0 {
                ctx.sample("(A) game x params", json!({"tree": tree.show(), "params": spec.to_json(), "methods": 3, "budgets": budgets}));
            }
        }
    });
    // (B)
    let bounds = if ctx.thorough() {
        Bounds { max_internal: 4, max_arity: 3, max_leaves: 5, chance_infosets: true, degenerate: true }
    } else {
        Bounds { max_internal: 3, max_arity: 3, max_leaves: 5, chance_infosets: true, degenerate: true }
    };
    let skels = skeletons(&bounds);
    super::universe_summary(ctx, &bounds, skels.len());
    let mut games_b: Vec<Tree> = skels.iter().enumerate().map(|(i, s)| fill_distinct(s, i)).collect();
    games_b.extend(families().into_iter().map(|(_, t)| t));
    games_b.par_iter().enumerate().for_each(|(gi, tree)| {
        if ctx.stopped() {
            return;
        }
        for spec in presets() {
            for method in METHODS {
                for budget in budgets {
                    for threshold in [-1.0, 0.0, 0.5, f64::INFINITY, f64::NAN] {
                        let case = Case { tree: tree.clone(), method, spec, budget, threshold, threads: 1, seed: ctx.seed ^ gi as u64 };
                        check_case(ctx, &case);
                        ctx.case(budget, super::has_decision(tree) && budget > 0);
                    }
                }
            }
        }
    });
    // (C) thread counts, real pool, watchdog; few games because every solve builds a pool
    let mut games_c: Vec<Tree> = games_b.iter().step_by(if ctx.thorough() { 1999 } else { 401 }).cloned().collect();
    games_c.extend(families().into_iter().filter(|(n, _)| n == "kuhn" || n == "wide_shared_4" || n == "deep_chain_6").map(|(_, t)| t));
    games_c.push(crate::universe::kary_alternating(2, 4));
    ctx.set("thread_count_games", json!(games_c.len()));
    games_c.par_iter().for_each(|tree| {
        for threads in [0usize, 2, 3, 16, 64] {
            for method in METHODS {
                for spec in [ParamSpec::Preset(0), ParamSpec::Default] {
                    for budget in [0u64, 1, 3] {
                        let case = Case { tree: tree.clone(), method, spec, budget, threshold: 0.0, threads, seed: ctx.seed };
                        check_case(ctx, &case);
                        ctx.case(budget, true);
                        ctx.count("multi_threaded_runs", 1);
                    }
                }
            }
        }
    });
    // (D) the documented thread-count error, exactly at the boundary
    for method in METHODS {
        let game = build(&crate::universe::matching_pennies()).unwrap();
        for (threads, overflow) in [(usize::MAX / 3 + 1, true), (usize::MAX, true), (usize::MAX / 2, true)] {
            let res = guarded(|| game.solve(crate::runner::to_method(method), 0, 0.0, threads, None).map(|_| ()));
            ctx.case(1, true);
            let ok = matches!((&res, overflow), (Ok(Err(SolveError::ThreadOverflow)), true));
            if !ok {
                ctx.violation("thread-overflow", &format!("threads={} gave {:?}", threads, res), json!({"threads": threads.to_string(), "method": method_name(method)}));
            }
        }
    }
    // (E) every draw history on the fallback extremes
    let extremes = [
        ParamSpec::Default,
        ParamSpec::Tuple(RefParams { a: f64::NEG_INFINITY, b: f64::NEG_INFINITY, g: 0.0, w: f64::INFINITY }),
        ParamSpec::Tuple(RefParams { a: f64::NEG_INFINITY, b: 1.0, g: 2.0, w: f64::NEG_INFINITY }),
        ParamSpec::Tuple(RefParams { a: 1e3, b: -1e3, g: 1e3, w: 1e3 }),
        ParamSpec::Tuple(RefParams { a: 0.0, b: 0.0, g: 0.0, w: -1.0 }),
    ];
    games_a.par_iter().for_each(|tree| {
        if ctx.stopped() || !super::has_decision(tree) {
            return;
        }
        let game = build(tree).unwrap();
        for spec in extremes {
            for (method, budget) in [(RefMethod::Sampled, 3u64), (RefMethod::External, 2)] {
                let case = Case { tree: tree.clone(), method, spec, budget, threshold: 0.0, threads: 1, seed: 0 };
                let stats = explore(
                    |decider| guarded(|| run_impl(tree, &game, method, budget, 0.0, 1, None, spec.implementation(), decider)),
                    |log, _p, res| {
                        let mut rep = case.to_json();
                        rep["script"] = crate::explore::draws_json(log);
                        match res {
                            Ok(Ok(out)) => {
                                if let Err((class, what)) = wellformed(tree, &out, budget) {
                                    ctx.violation(&class, &format!("{} {}", what, case.describe()), rep);
                                }
                            }
                            Ok(Err(msg)) | Err(msg) => ctx.violation("panic-or-error", &format!("{} {}", msg, case.describe()), rep),
                        }
                        ctx.case(log.len() as u64, true);
                        ctx.count("histories_explored_exhaustively", 1);
                    },
                    4096,
                );
                if let Err(msg) = stats {
                    ctx.violation("explorer-divergence", &msg, case.to_json());
                }
            }
        }
    });
    // (E2) tiny own reach x extreme exponents: ladders on which the average-strategy normaliser is
    // a denormal after one iteration
    let ladders = [crate::universe::ladder(10, 10), crate::universe::ladder(30, 2), crate::universe::ladder(60, 2), crate::universe::deep_chain(40)];
    let extreme_g = [
        ParamSpec::Tuple(RefParams { a: 1e3, b: 1e3, g: 1e3, w: 0.0 }),
        ParamSpec::Tuple(RefParams { a: 1.5, b: 0.0, g: 1e3, w: f64::INFINITY }),
        ParamSpec::Tuple(RefParams { a: f64::INFINITY, b: f64::INFINITY, g: 900.0, w: 0.0 }),
        ParamSpec::Tuple(RefParams { a: -1e3, b: -1e3, g: 0.5, w: -1e3 }),
        ParamSpec::Default,
    ];
    ladders.par_iter().for_each(|tree| {
        for spec in extreme_g {
            for method in METHODS {
                for budget in [1u64, 2, 3] {
                    for threshold in [0.0, f64::INFINITY] {
                        for threads in [1usize, 2] {
                            let case = Case { tree: tree.clone(), method, spec, budget, threshold, threads, seed: ctx.seed };
                            check_case(ctx, &case);
                            ctx.case(budget, true);
                            ctx.count("ladder_cases_(tiny_reach_x_extreme_exponents)", 1);
                        }
                    }
                }
            }
        }
    });
    // (F) every schedule (loom) of the worker tasks of all three multi-threaded solvers on the
    // collision games: no panic, no error, no deadlock under any interleaving
    if crate::multi::loom_available() {
        use crate::multi::{judge_loom, loom_case, run_loom, sequential, Config, LoomBounds, LoomTotals};
        let lb = if ctx.thorough() { LoomBounds { pb3: Some(3), pb4: Some(2), max_permutations: 200_000, max_seconds: 200 } } else { LoomBounds { pb3: Some(2), pb4: Some(1), max_permutations: 20_000, max_seconds: 30 } };
        let mut cases = Vec::new();
        for (_, tree) in crate::checks::c06::collision_games() {
            let game = match build(&tree) {
                Ok(g) => g,
                Err(_) => continue,
            };
            let al = match crate::runner::align(&tree, &game) {
                Ok(al) => al,
                Err(_) => continue,
            };
            for method in METHODS {
                for spec in [ParamSpec::Preset(0), ParamSpec::Default] {
                    let iters = if method == RefMethod::External { 1 } else { 2 };
                    let cfg = Config { method, spec, iters, max_reg: 0.0, script: BTreeMap::new(), fallback: crate::explore::Fallback::Hash(ctx.seed) };
                    if let Ok(seq) = sequential(&tree, &game, &al, &cfg) {
                        for target in [3usize, 4, 5, 6] {
                            cases.push(loom_case(0, &tree, &cfg, &seq, 2, &[target], true, &lb));
                        }
                    }
                }
            }
        }
        let results = run_loom(&cases, 16);
        let mut totals = LoomTotals::default();
        for (case, res) in cases.iter().zip(results.iter()) {
            judge_loom(ctx, case, res, &mut totals);
        }
        ctx.set("loom_schedules_(no_panic_no_deadlock)", json!({"cases": totals.cases, "with_>=2_concurrent_tasks": totals.cases_with_concurrency, "schedules": totals.schedules, "capped": totals.capped, "preemption_bounded": totals.bounded}));
    } else {
        ctx.set("loom_schedules_(no_panic_no_deadlock)", json!("NOT RUN: loom worker not built"));
    }
    ctx.assume("actually spawning usize::MAX/3 threads (resource exhaustion, ThreadSpawnError) is environment behaviour the explorer does not own");
    ctx.assume("exponents beyond |1e3| and payoffs outside the alphabets are not covered");
    ctx.assume("multi-threaded runs (C) use the real rayon pool: they are exhaustive over inputs, not over schedules; (F) explores every schedule (loom; preemption-bounded above two tasks) of the collision games for all three methods, and C06 / C07 do so for many more games");
    ctx.finish(
        "(A) every valid game of the small bounds x 3 methods x (1792 parameter tuples over a,b in {-inf,-1e3,-1.5,0,.5,1,1e3,inf}, g in {0,.5,2,1e3}, w in {-inf,-1e3,-1,0,1,1e3,inf} + 5 presets + None) x budgets {0,1,2,3,7}; (B) every valid skeleton of the larger bounds + families x presets/None x budgets x thresholds {-1,0,.5,inf,NaN}; (C) thread counts {0,2,3,16,64}; (D) overflow boundary; (E) every draw history for 5 extreme tuples; non-trivial = the game has a decision and at least one iteration ran",
        true,
        "E-INPUT (+ E-CHOICE for the sampled methods): every enumerated configuration is run through Game::solve inside catch_unwind (and a watchdog when multi-threaded) and the returned profile / bounds are checked through as_named, get_info and the dense vector",
    )
}

pub fn replay(ctx: &Ctx, val: &Value) -> i32 {
    if val.get("tree").is_none() {
        println!("thread-overflow case: rerun the check");
        return 2;
    }
    let ok = check_case(ctx, &Case::from_json(val));
    println!("replay {}", if ok { "passes" } else { "fails" });
    if ok { 0 } else { 1 }
}
