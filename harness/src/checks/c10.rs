//! C10 — sampling follows the declared distributions and is shared within a chance infoset.
//! (a) categorical sampler: every weight vector with denominator 8 of length 1..=4 (zeros included)
//!     x every uniform variate of the boundary grid {0, c_k, c_k +- 2^-53, midpoints, 1 - 2^-53},
//!     through the hook that feeds the private sampler a chosen variate. All values are dyadic.
//! (b) draw sites: on every run below the hook logs which site drew in which pass from which
//!     weights; compared with the specification's draw list (refcfr) under the observed outcomes:
//!     chance infosets present exactly their declared normalised weights once per pass however
//!     many nodes share them, external sampling presents the non-updating player's current
//!     strategy once per infoset and iteration, Full draws nothing, Sampled draws no player action.
//!     Runs: free-running production generator (observer mode) and every draw history up to a
//!     pass horizon (E-CHOICE). On games with shared chance infosets the resulting strategies are
//!     compared too (the only observable of "all nodes of the infoset follow the same outcome").
//! (c) the alias table of the chance sampler: for every weight vector (positive, denominator 8,
//!     length 2..=4) every table column x a bisection on the coin variate reconstructs the exact
//!     distribution the production sampler realises; compared with the declared weights.
use super::c08::{case_json, compare_opt, method_name, ParamSpec, Verdict};
use crate::explore::{explore, Fallback, Pinned};
use crate::framework::{guarded, Ctx};
use crate::refcfr::RefMethod;
use crate::runner::{align, run_impl};
use crate::subject::build;
use crate::tree::Tree;
use crate::universe::{families, fill_distinct, skeletons, Bounds};
use rayon::prelude::*;
use serde_json::{json, Value};
use std::collections::BTreeMap;

fn compositions8(len: usize, allow_zero: bool) -> Vec<Vec<f64>> {
    fn rec(len: usize, left: usize, allow_zero: bool, cur: &mut Vec<f64>, out: &mut Vec<Vec<f64>>) {
        if len == 1 {
            if left > 0 || allow_zero {
                cur.push(left as f64 / 8.0);
                out.push(cur.clone());
                cur.pop();
            }
            return;
        }
        let lo = if allow_zero { 0 } else { 1 };
        for first in lo..=left {
            cur.push(first as f64 / 8.0);
            rec(len - 1, left - first, allow_zero, cur, out);
            cur.pop();
        }
    }
    let mut out = Vec::new();
    rec(len, 8, allow_zero, &mut Vec::new(), &mut out);
    out
}

const ONE: u64 = 1 << 53;

pub fn check_categorical(ctx: &Ctx, probs: &[f64]) -> bool {
    // cumulative boundaries as exact mantissas of 2^-53
    let mut cum = Vec::new();
    let mut acc = 0u64;
    for p in probs {
        acc += (*p * ONE as f64) as u64;
        cum.push(acc);
    }
    let mut grid: Vec<u64> = vec![0, ONE - 1, 1];
    let mut prev = 0u64;
    for c in &cum {
        for m in [c.saturating_sub(1), *c, c + 1, (prev + c) / 2] {
            if m < ONE {
                grid.push(m);
            }
        }
        prev = *c;
    }
    grid.sort();
    grid.dedup();
    let mut ok = true;
    for m in grid {
        // the k-th cumulative-probability interval is (c_{k-1}, c_k] (the first one also holds 0);
        // whatever is left belongs to the last index
        let want = cum.iter().position(|c| m <= *c).unwrap_or(probs.len() - 1).min(probs.len() - 1);
        let got = guarded(|| cfr::verif::multinomial_index(probs, m));
        ctx.case(1, probs.len() > 1);
        if got != Ok(want) {
            ctx.violation("categorical", &format!("weights {:?}, variate {}*2^-53: sampler returned {:?}, interval says {}", probs, m, got, want), json!({"categorical": probs, "mantissa": m}));
            ok = false;
        }
    }
    ok
}

pub fn check_alias(ctx: &Ctx, probs: &[f64]) -> bool {
    let num = probs.len();
    let mut realised = vec![0.0; num];
    let top = (1u64 << 52) - 1;
    let replay = json!({"alias": probs});
    for col in 0..num {
        let res = guarded(|| {
            let at = |coin: u64| cfr::verif::chance_sample_scripted(probs, col, coin);
            let own = at(0);
            let other = at(top);
            // smallest coin whose outcome is `other`
            let (mut lo, mut hi) = (0u64, top); // at(lo) == own, at(hi) == other (if they differ)
            let mut evals = 2u64;
            if own != other {
                while hi - lo > 1 {
                    let mid = lo + (hi - lo) / 2;
                    evals += 1;
                    if at(mid) == own {
                        lo = mid;
                    } else {
                        hi = mid;
                    }
                }
            }
            (own, other, if own == other { 1.0 } else { hi as f64 / (1u64 << 52) as f64 }, evals)
        });
        match res {
            Err(msg) => {
                ctx.violation("alias-panic", &format!("{} for weights {:?}", msg, probs), replay);
                return false;
            }
            Ok((own, other, frac, evals)) => {
                ctx.add(&ctx.transitions, evals);
                if own >= num || other >= num {
                    ctx.violation("alias-range", &format!("outcome out of range for weights {:?}", probs), replay);
                    return false;
                }
                realised[own] += frac / num as f64;
                realised[other] += (1.0 - frac) / num as f64;
            }
        }
    }
    ctx.case(0, true);
    if realised.iter().zip(probs.iter()).any(|(r, p)| (r - p).abs() > 1e-12) {
        ctx.violation("alias-distribution", &format!("the chance sampler built from {:?} realises {:?}", probs, realised), replay);
        return false;
    }
    true
}

/// (b) one run: draw sites / distributions (and strategies when `strategies`)
pub fn check_run(ctx: &Ctx, tree: &Tree, method: RefMethod, spec: ParamSpec, iters: u64, script: BTreeMap<cfr::verif::Key, usize>, fallback: Fallback, strategies: bool, threads: usize) -> Verdict {
    let res = guarded(|| -> Result<_, String> {
        let game = build(tree).map_err(|e| format!("valid game rejected: {:?}", e))?;
        let al = align(tree, &game)?;
        let decider = Pinned::new(script.clone(), fallback);
        // threads == 1: the public single-threaded path; threads == 2: the multi-threaded
        // implementation with a single-task frontier (task target 1: deterministic)
        let out = if threads == 1 {
            run_impl(tree, &game, method, iters, 0.0, 1, None, spec.implementation(), &decider)?
        } else {
            crate::multi::gated(|| run_impl(tree, &game, method, iters, 0.0, threads, Some(1), spec.implementation(), &decider))?
        };
        Ok((out, decider.take_log(), al))
    });
    match res {
        Ok(Ok((out, log, al))) => {
            ctx.add(&ctx.transitions, log.len() as u64);
            let mut replay = case_json(tree, method, spec, iters, fallback, &log);
            replay["threads"] = json!(threads);
            // at most one draw per (site, pass), visible before any translation
            let mut seen = BTreeMap::new();
            for d in &log {
                if seen.insert(d.key, ()).is_some() {
                    ctx.violation("second-draw", &format!("{:?} drew twice [{} T={}] on {}", d.key, method_name(method), iters, tree.show()), replay);
                    return Verdict::Violation;
                }
            }
            // chance draws present the declared normalised weights
            for d in log.iter().filter(|d| d.key.kind == cfr::verif::Kind::Chance) {
                if al.chance_probs.get(d.key.id).map(|p| p.as_slice()) != Some(d.weights.as_slice()) {
                    ctx.violation("chance-weights", &format!("chance infoset {} drew from {:?}, declared {:?}", d.key.id, d.weights, al.chance_probs.get(d.key.id)), replay);
                    return Verdict::Violation;
                }
            }
            compare_opt(ctx, tree, method, spec, iters, &out, &log, &al, &replay, strategies)
        }
        Ok(Err(msg)) | Err(msg) => {
            ctx.violation("run-failed", &format!("{} [{} T={}] on {}", msg, method_name(method), iters, tree.show()), case_json(tree, method, spec, iters, fallback, &[]));
            Verdict::Violation
        }
    }
}

fn has_shared_chance(tree: &Tree) -> bool {
    let mut labelled = 0;
    tree.walk(&mut |n| {
        if let Tree::C(Some(_), _) = n {
            labelled += 1
        }
    });
    labelled >= 2
}

fn tally(ctx: &Ctx, v: &Verdict) {
    ctx.evaluations.fetch_add(1, std::sync::atomic::Ordering::Relaxed);
    ctx.states.fetch_add(1, std::sync::atomic::Ordering::Relaxed);
    match v {
        Verdict::Agree => {
            ctx.validated.fetch_add(1, std::sync::atomic::Ordering::Relaxed);
            ctx.nontrivial.fetch_add(1, std::sync::atomic::Ordering::Relaxed);
        }
        Verdict::Inconclusive => ctx.count("ill_conditioned_(not_compared)", 1),
        Verdict::Violation => {}
    }
}

pub fn run(ctx: &Ctx) -> i32 {
    // (a)
    let mut vectors = Vec::new();
    for len in 1..=4 {
        vectors.extend(compositions8(len, true));
    }
    ctx.set("categorical_weight_vectors", json!(vectors.len()));
    for probs in &vectors {
        check_categorical(ctx, probs);
    }
    ctx.sample("categorical", json!({"weights": vectors[vectors.len() / 2], "variates": "0, each cumulative boundary and its two neighbours, interval midpoints, 1-2^-53"}));
    // (c)
    let mut positive = Vec::new();
    for len in 2..=4 {
        positive.extend(compositions8(len, false));
    }
    // also un-normalised sums are impossible here: the library always normalises before building
    ctx.set("alias_weight_vectors", json!(positive.len()));
    for probs in &positive {
        check_alias(ctx, probs);
    }
    ctx.sample("alias table", json!({"weights": positive[positive.len() / 3], "explored": "every column x bisection on the coin variate"}));
    // (b)
    let bounds = if ctx.thorough() {
        Bounds { max_internal: 4, max_arity: 3, max_leaves: 5, chance_infosets: true, degenerate: true }
    } else {
        Bounds { max_internal: 3, max_arity: 3, max_leaves: 5, chance_infosets: true, degenerate: true }
    };
    let skels = skeletons(&bounds);
    super::universe_summary(ctx, &bounds, skels.len());
    let mut games: Vec<Tree> = skels.iter().enumerate().map(|(i, s)| fill_distinct(s, i)).collect();
    games.extend(families().into_iter().filter(|(n, _)| !n.starts_with("rare_chance_1e4") && !n.starts_with("rare_chance_1e3")).map(|(_, t)| t));
    let specs = [ParamSpec::Preset(0), ParamSpec::Default];
    games.par_iter().enumerate().for_each(|(gi, tree)| {
        if ctx.stopped() {
            return;
        }
        let shared = has_shared_chance(tree);
        if shared {
            ctx.count("games_with_shared_chance_infosets", 1);
        }
        for spec in specs {
            // observer mode: the production generator draws freely
            for method in super::c08::METHODS {
                for iters in [1u64, 4] {
                    let v = check_run(ctx, tree, method, spec, iters, BTreeMap::new(), Fallback::Free, shared, 1);
                    tally(ctx, &v);
                    ctx.count("observer_mode_runs_(free_generator)", 1);
                    // the multi-threaded implementation has its own traversals and its own per-pass
                    // renewal of the draws (every solve builds a thread pool: a subset of the games)
                    if method != RefMethod::Full && iters == 4 && (gi % (if ctx.thorough() { 16 } else { 64 }) == 0 || ctx.thorough() && tree.num_internal() <= 2 || tree.num_internal() > 6 && tree.num_internal() < 12) {
                        let v = check_run(ctx, tree, method, spec, iters, BTreeMap::new(), Fallback::Free, shared, 2);
                        tally(ctx, &v);
                        ctx.count("observer_mode_runs_of_the_multi_threaded_implementation", 1);
                    }
                }
            }
        }
        // every draw history up to the horizon
        if tree.num_internal() <= 3 {
            // (the third entry: the multi-threaded implementation with a single-task frontier, on a
            // subset of the games: every solve builds a thread pool)
            let multi = gi % (if ctx.thorough() { 16 } else { 512 }) == 0;
            for (method, iters, threads) in [(RefMethod::Sampled, 3u64, 1usize), (RefMethod::External, 2, 1), (RefMethod::External, 2, 2), (RefMethod::Sampled, 2, 2)] {
                if threads > 1 && !multi {
                    continue;
                }
                let game = build(tree).unwrap();
                let al = match align(tree, &game) {
                    Ok(al) => al,
                    Err(msg) => {
                        ctx.violation("compact-tree", &msg, json!({"tree": tree.to_replay()}));
                        return;
                    }
                };
                let spec = ParamSpec::Default;
                let stats = explore(
                    |decider| {
                        if threads == 1 {
                            guarded(|| run_impl(tree, &game, method, iters, 0.0, 1, None, spec.implementation(), decider))
                        } else {
                            crate::multi::gated(|| guarded(|| run_impl(tree, &game, method, iters, 0.0, threads, Some(1), spec.implementation(), decider)))
                        }
                    },
                    |log, _prob, res| {
                        let mut replay = case_json(tree, method, spec, iters, Fallback::First, log);
                        replay["threads"] = json!(threads);
                        ctx.add(&ctx.transitions, log.len() as u64);
                        let v = match res {
                            Ok(Ok(out)) => compare_opt(ctx, tree, method, spec, iters, &out, log, &al, &replay, shared),
                            Ok(Err(msg)) | Err(msg) => {
                                ctx.violation("run-failed", &msg, replay);
                                Verdict::Violation
                            }
                        };
                        tally(ctx, &v);
                        ctx.count(if threads == 1 { "histories_explored_exhaustively" } else { "histories_explored_exhaustively_(multi-threaded implementation)" }, 1);
                    },
                    2048,
                );
                match stats {
                    Ok(st) if st.capped => ctx.count("history_enumerations_capped", 1),
                    Ok(_) => ctx.count("history_enumerations_completed", 1),
                    Err(msg) => ctx.violation("explorer-divergence", &msg, json!({"tree": tree.to_replay()})),
                }
            }
        }
        if gi % 1777 == 0 {
            ctx.sample("draw-site run", json!({"tree": tree.show(), "modes": ["observer (free generator) T in {1,4}", "all histories: sampled T=3, external T=2"]}));
        }
    });
    ctx.assume("rand 0.8 / rand_distr 0.4 are trusted only for how generator words map to (column, coin) and to a unit variate; the alias table itself is reconstructed and compared in (c)");
    ctx.assume("observer-mode runs use the live generator: which histories they visit is not controlled; what is checked on them (sites, passes, distributions) does not depend on the outcome drawn");
    ctx.finish(
        "(a) every weight vector with denominator 8, length 1..=4, zeros included x boundary grid of variates; (c) every positive weight vector with denominator 8, length 2..=4 x every alias-table column x bisection on the coin; (b) every valid skeleton and family game x {vanilla, default} x 3 methods x T in {1,4} in observer mode, and every draw history of Sampled T=3 / External T=2",
        true,
        "E-INPUT on the two production samplers through the scripted generator; E-CHOICE + observer on the draw sites of the real solvers, compared with the specification's draw list",
    )
}

pub fn replay(ctx: &Ctx, val: &Value) -> i32 {
    let vec_of = |v: &Value| v.as_array().unwrap().iter().map(|x| x.as_f64().unwrap()).collect::<Vec<f64>>();
    let ok = if let Some(p) = val.get("categorical") {
        check_categorical(ctx, &vec_of(p))
    } else if let Some(p) = val.get("alias") {
        check_alias(ctx, &vec_of(p))
    } else {
        let tree = Tree::from_replay(&val["tree"]);
        let fallback = match &val["fallback"] {
            Value::String(s) if s == "first" => Fallback::First,
            Value::String(_) => Fallback::Free,
            num => Fallback::Hash(num.as_u64().unwrap()),
        };
        // a replay of an observer-mode run pins the recorded outcomes
        check_run(ctx, &tree, super::c08::method_from(val["method"].as_str().unwrap()), ParamSpec::from_json(&val["params"]), val["iters"].as_u64().unwrap(), crate::explore::script_from_json(&val["script"]), fallback, true, val["threads"].as_u64().unwrap_or(1) as usize) != Verdict::Violation
    };
    println!("replay {}", if ok { "passes" } else { "fails" });
    if ok { 0 } else { 1 }
}
