//! C09 — early termination stops exactly at the first iteration below the threshold.
//! The run is a transition system whose states are iterations. Enumerated: games x methods (the
//! sampled ones under pinned draw histories: the same (infoset, pass) -> outcome map serves every
//! prefix) x presets x every budget N in 1..=NMAX x thresholds {-1, -0.0, 0, NaN, +inf} u
//! {prev(b_t), b_t, next(b_t)} for every total bound b_t of the unthresholded prefix runs t <= N.
//! Oracle: solve(N, r) is bitwise solve(t*, 0) with t* = min{t : b_t < r} (or N).
//! Budgets far beyond the horizon ({2^32+1, u64::MAX-1, u64::MAX = "unlimited"}) are run with the
//! thresholds the run is known to pass within the horizon.
use super::c08::{method_name, preset_impl, METHODS, PRESET_NAMES};
use super::c18::{next_down, next_up};
use super::universe_summary;
use crate::explore::{Fallback, Pinned};
use crate::framework::{guarded, Ctx};
use crate::refcfr::RefMethod;
use crate::runner::run_impl;
use crate::subject::build;
use crate::tree::Tree;
use crate::universe::{families, fill_distinct, skeletons, Bounds};
use rayon::prelude::*;
use serde_json::{json, Value};
use std::collections::BTreeMap;

/// The prefix runs (the states of the transition system) must not depend on the comparison under
/// test: bounds are never negative, so a threshold of -1 cannot stop a run whatever the comparison.
const NO_THRESHOLD: f64 = -1.0;

type Out = ([Vec<u64>; 2], [u64; 2]);

fn run_bits(tree: &Tree, game: &crate::subject::G, method: RefMethod, preset: usize, iters: u64, max_reg: f64, seed: u64, threads: usize) -> Result<Out, String> {
    let decider = Pinned::new(BTreeMap::new(), Fallback::Hash(seed));
    // threads == 1: the public single-threaded path; threads == 2: the multi-threaded implementation
    // with a single-task frontier (task target 1), which is deterministic to the last bit
    let target = if threads == 1 { None } else { Some(1) };
    let solve = || guarded(|| run_impl(tree, game, method, iters, max_reg, threads, target, Some(preset_impl(preset)), &decider));
    // multi-threaded solves one at a time (building thread pools concurrently is slow here)
    let out = if threads == 1 { solve() } else { crate::multi::gated(solve) }.map_err(|m| format!("panic: {}", m))??;
    Ok((
        [out.raw[0].iter().map(|x| x.to_bits()).collect(), out.raw[1].iter().map(|x| x.to_bits()).collect()],
        [out.bounds[0].to_bits(), out.bounds[1].to_bits()],
    ))
}

/// the same without the gate (used under the watchdog: a solve that never returns must not keep it)
fn run_bits_ungated(tree: &Tree, game: &crate::subject::G, method: RefMethod, preset: usize, iters: u64, max_reg: f64, seed: u64, threads: usize) -> Result<Out, String> {
    let decider = Pinned::new(BTreeMap::new(), Fallback::Hash(seed));
    let target = if threads == 1 { None } else { Some(1) };
    let out = guarded(|| run_impl(tree, game, method, iters, max_reg, threads, target, Some(preset_impl(preset)), &decider)).map_err(|m| format!("panic: {}", m))??;
    Ok((
        [out.raw[0].iter().map(|x| x.to_bits()).collect(), out.raw[1].iter().map(|x| x.to_bits()).collect()],
        [out.bounds[0].to_bits(), out.bounds[1].to_bits()],
    ))
}

fn total(out: &Out) -> f64 {
    f64::max(f64::from_bits(out.1[0]), f64::from_bits(out.1[1]))
}

pub fn check_game(ctx: &Ctx, tree: &Tree, method: RefMethod, preset: usize, nmax: u64, seed: u64, threads: usize) -> bool {
    let game = match build(tree) {
        Ok(g) => g,
        Err(_) => return true,
    };
    let base = json!({"tree": tree.to_replay(), "method": method_name(method), "preset": PRESET_NAMES[preset], "nmax": nmax, "seed": seed, "threads": threads});
    let mut ok = true;
    // unthresholded prefix runs: the states of the transition system
    let mut prefix: Vec<Out> = Vec::new();
    for t in 0..=nmax {
        match run_bits(tree, &game, method, preset, t, NO_THRESHOLD, seed, threads) {
            Ok(out) => prefix.push(out),
            Err(msg) => {
                ctx.violation("run-failed", &format!("{} at budget {} on {}", msg, t, tree.show()), base.clone());
                return false;
            }
        }
    }
    // determinism of the pinned run (a replay must give identical observations)
    match run_bits(tree, &game, method, preset, nmax, NO_THRESHOLD, seed, threads) {
        Ok(again) if again == prefix[nmax as usize] => {}
        _ => {
            ctx.violation("pinned-run-not-deterministic", &format!("two runs under the same pinned decisions differ on {}", tree.show()), base.clone());
            return false;
        }
    }
    for n in 1..=nmax {
        let mut thresholds = vec![-1.0, -0.0, 0.0, f64::NAN, f64::INFINITY];
        for t in 1..=n {
            let b = total(&prefix[t as usize]);
            thresholds.extend([next_down(b), b, next_up(b)]);
        }
        for r in thresholds {
            // first iteration after which the total bound is strictly below r
            let tstar = (1..=n).find(|t| total(&prefix[*t as usize]) < r).unwrap_or(n);
            let got = match run_bits(tree, &game, method, preset, n, r, seed, threads) {
                Ok(out) => out,
                Err(msg) => {
                    ctx.violation("run-failed", &format!("{} at budget {} threshold {} on {}", msg, n, r, tree.show()), base.clone());
                    return false;
                }
            };
            ctx.case(n, tstar < n);
            if got != prefix[tstar as usize] {
                // which prefix does it equal, if any
                let equals: Vec<u64> = (0..=nmax).filter(|t| prefix[*t as usize] == got).collect();
                let class = if equals.iter().any(|t| *t > tstar) {
                    "stopped-late"
                } else if equals.iter().any(|t| *t < tstar) {
                    "stopped-early"
                } else {
                    "not-a-prefix"
                };
                let mut rep = base.clone();
                rep["budget"] = json!(n);
                rep["threshold"] = if r.is_finite() { json!(r) } else { json!(format!("{}", r)) };
                ctx.violation(class, &format!("solve(N={}, r={}) equals the unthresholded run of budget {:?}, expected t*={} (bounds {:?}) [{} {}] on {}", n, r, equals, tstar, (1..=n).map(|t| total(&prefix[t as usize])).collect::<Vec<_>>(), method_name(method), PRESET_NAMES[preset], tree.show()), rep);
                ok = false;
            } else {
                let bound = total(&got);
                if tstar < n && !(bound < r) {
                    ctx.violation("bound-not-below", &format!("stopped after {} < {} iterations with bound {} not below {}", tstar, n, bound, r), base.clone());
                    ok = false;
                }
            }
        }
    }
    // budgets far beyond the horizon, among them the documented "unlimited" budget u64::MAX: with a
    // threshold that the run is known to pass within the horizon, the result is the same prefix run.
    // (Run under a watchdog: an implementation that misses the stop would never return.)
    for big in [u64::MAX, u64::MAX - 1, (1u64 << 32) + 1] {
        let mut thresholds = vec![f64::INFINITY];
        for t in 1..=nmax {
            thresholds.push(next_up(total(&prefix[t as usize])));
        }
        thresholds.dedup_by(|a, b| a.to_bits() == b.to_bits());
        for r in thresholds {
            let tstar = match (1..=nmax).find(|t| total(&prefix[*t as usize]) < r) {
                Some(t) => t,
                None => continue,
            };
            let owned = tree.clone();
            let answer = crate::framework::with_deadline(120, move || build(&owned).map_err(|e| format!("{:?}", e)).and_then(|game| run_bits_ungated(&owned, &game, method, preset, big, r, seed, threads)));
            let mut rep = base.clone();
            rep["budget"] = json!(big);
            rep["threshold"] = if r.is_finite() { json!(r) } else { json!(format!("{}", r)) };
            ctx.case(tstar, true);
            ctx.count("budgets_beyond_the_horizon_(incl. u64::MAX)", 1);
            match answer {
                Some(Ok(got)) if got == prefix[tstar as usize] => {}
                Some(Ok(got)) => {
                    let equals: Vec<u64> = (0..=nmax).filter(|t| prefix[*t as usize] == got).collect();
                    let class = if equals.iter().any(|t| *t < tstar) { "stopped-early" } else if equals.is_empty() { "not-a-prefix" } else { "stopped-late" };
                    ctx.violation(class, &format!("solve(N={}, r={}) equals the unthresholded run of budget {:?}, expected t*={} [{} {}] on {}", big, r, equals, tstar, method_name(method), PRESET_NAMES[preset], tree.show()), rep);
                    ok = false;
                }
                Some(Err(msg)) => {
                    ctx.violation("run-failed", &format!("{} at budget {} threshold {} on {}", msg, big, r, tree.show()), rep);
                    return false;
                }
                None => {
                    ctx.violation("stopped-late", &format!("solve(N={}, r={}) did not return within 120 s although the bound is below the threshold after {} iterations [{} {}] on {}", big, r, tstar, method_name(method), PRESET_NAMES[preset], tree.show()), rep);
                    return false;
                }
            }
        }
    }
    ok
}

pub fn run(ctx: &Ctx) -> i32 {
    let bounds = if ctx.thorough() {
        Bounds { max_internal: 4, max_arity: 3, max_leaves: 5, chance_infosets: true, degenerate: true }
    } else {
        Bounds { max_internal: 3, max_arity: 3, max_leaves: 5, chance_infosets: true, degenerate: true }
    };
    let skels = skeletons(&bounds);
    universe_summary(ctx, &bounds, skels.len());
    let mut games: Vec<Tree> = skels.iter().enumerate().map(|(i, s)| fill_distinct(s, i)).filter(super::has_decision).collect();
    games.extend(families().into_iter().filter(|(n, _)| !n.starts_with("rare_chance_1e4")).map(|(_, t)| t));
    let nmax = if ctx.thorough() { 12 } else { 8 };
    let presets: &[usize] = if ctx.thorough() { &[0, 1, 2, 3, 4] } else { &[0, 3] };
    ctx.set("budgets", json!(format!("1..={}", nmax)));
    games.par_iter().enumerate().for_each(|(gi, tree)| {
        if ctx.stopped() {
            return;
        }
        for method in METHODS {
            for preset in presets {
                check_game(ctx, tree, method, *preset, nmax, ctx.seed.wrapping_add(gi as u64), 1);
                // the multi-threaded implementation builds a thread pool per solve (~0.1 ms), so it
                // is explored on the small games only, with a shorter horizon
                // (every solve builds a thread pool, 0.1 - 3 ms depending on the machine's mood: a
                // sixteenth of the small games in the quick tier, with a horizon of 4)
                if (tree.num_internal() <= 2 && (ctx.thorough() || gi % 16 == 0)) || (ctx.thorough() && tree.num_internal() <= 3 && gi % 16 == 0) || tree.num_internal() > 6 && tree.num_internal() < 12 {
                    check_game(ctx, tree, method, *preset, nmax.min(4), ctx.seed.wrapping_add(gi as u64), 2);
                    ctx.count("multi_threaded_implementation_(game,method,preset)", 1);
                }
                if method != RefMethod::Full {
                    ctx.count("pinned_histories_(hash)", 1);
                }
            }
        }
        if gi % 499 == 0 {
            ctx.sample("game", json!({"tree": tree.show(), "methods": ["full", "sampled", "external"], "presets": presets.iter().map(|p| PRESET_NAMES[*p]).collect::<Vec<_>>(), "budgets": format!("1..={}", nmax), "thresholds": "-1,-0,0,NaN,inf and prev/at/next of every prefix bound"}));
        }
    });
    ctx.assume("both implementations are explored: the single-threaded one through the public solve, and the multi-threaded one through the hook with 2 workers and a single-task frontier (bitwise deterministic); multi-task frontiers are C06/C07");
    ctx.assume("the sampled methods are explored under hash-pinned draw histories (one per game); C08 enumerates histories, C09's claim is about the relation between prefixes of one run");
    ctx.finish(
        "every valid game within the bounds and the curated families x 3 methods x presets x every budget N x every threshold placed below/at/above every bound value of the run; states = (game, method, preset, N, threshold); non-trivial = the threshold makes the run stop before N",
        true,
        "transition-system view of the real solver: prefix runs solve(t, 0) for t = 0..NMAX are the states; every thresholded run solve(N, r) must be bitwise the prefix run at the first state whose bound is strictly below r",
    )
}

pub fn replay(ctx: &Ctx, val: &Value) -> i32 {
    let tree = Tree::from_replay(&val["tree"]);
    let preset = PRESET_NAMES.iter().position(|n| Some(*n) == val["preset"].as_str()).unwrap();
    let ok = check_game(ctx, &tree, super::c08::method_from(val["method"].as_str().unwrap()), preset, val["nmax"].as_u64().unwrap(), val["seed"].as_u64().unwrap(), val["threads"].as_u64().unwrap_or(1) as usize);
    println!("replay {}", if ok { "passes" } else { "fails" });
    if ok { 0 } else { 1 }
}
