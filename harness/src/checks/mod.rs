//! One module per property; shared helpers (profile grids, universes per tier)
use crate::framework::Ctx;
use crate::refmodel::{infosets, Profile};
use crate::tree::Tree;
use crate::universe::{self, Bounds};
use std::collections::BTreeMap;

pub mod api;
pub mod c01;
pub mod c02;
pub mod c03;
pub mod c04;
pub mod c05;
pub mod c06;
pub mod c07;
pub mod c08;
pub mod c09;
pub mod c10;
pub mod c11;
pub mod c12;
pub mod c13;
pub mod c14;
pub mod c15;
pub mod c16;
pub mod c17;
pub mod c18;
pub mod c19;

/// the probability grid of one infoset with `k` actions
pub fn grid(k: usize, fine: bool) -> Vec<Vec<f64>> {
    if k == 1 {
        return vec![vec![1.0]];
    }
    if fine {
        // every composition of 4 into k parts, over 4
        fn rec(k: usize, left: usize, cur: &mut Vec<f64>, out: &mut Vec<Vec<f64>>) {
            if k == 1 {
                cur.push(left as f64 / 4.0);
                out.push(cur.clone());
                cur.pop();
                return;
            }
            for first in 0..=left {
                cur.push(first as f64 / 4.0);
                rec(k - 1, left - first, cur, out);
                cur.pop();
            }
        }
        let mut out = Vec::new();
        rec(k, 4, &mut Vec::new(), &mut out);
        out
    } else {
        let mut out = Vec::new();
        for i in 0..k {
            let mut pure = vec![0.0; k];
            pure[i] = 1.0;
            out.push(pure);
        }
        match k {
            2 => {
                out.push(vec![0.5, 0.5]);
                out.push(vec![0.25, 0.75]);
            }
            3 => {
                out.push(vec![0.5, 0.25, 0.25]);
                out.push(vec![0.0, 0.5, 0.5]);
                out.push(vec![0.25, 0.0, 0.75]);
            }
            _ => {
                let mut v = vec![0.0; k];
                v[0] = 0.5;
                v[k - 1] = 0.5;
                out.push(v);
                let mut v = vec![0.25; k];
                for x in v.iter_mut().skip(4) {
                    *x = 0.0;
                }
                out.push(v);
            }
        }
        out
    }
}

/// every profile of the per-infoset grids (product over all multi-action infosets of both players)
pub fn profiles(tree: &Tree, fine: bool, cap: usize) -> (Vec<Profile>, bool) {
    let infos = infosets(tree);
    let mut slots: Vec<(usize, String, Vec<Vec<f64>>)> = Vec::new();
    for pl in 0..2 {
        for d in &infos[pl] {
            if d.actions.len() >= 2 {
                slots.push((pl, d.name.clone(), grid(d.actions.len(), fine)));
            }
        }
    }
    let total: usize = slots.iter().map(|s| s.2.len()).product();
    if fine && total > cap {
        let (res, _) = profiles(tree, false, cap);
        return (res, true);
    }
    let mut out = Vec::new();
    let mut idx = vec![0usize; slots.len()];
    loop {
        let mut prof: Profile = [BTreeMap::new(), BTreeMap::new()];
        for ((pl, name, opts), i) in slots.iter().zip(idx.iter()) {
            prof[*pl].insert(name.clone(), opts[*i].clone());
        }
        out.push(prof);
        if out.len() >= cap {
            return (out, true);
        }
        let mut pos = 0;
        loop {
            if pos == slots.len() {
                return (out, false);
            }
            idx[pos] += 1;
            if idx[pos] < slots[pos].2.len() {
                break;
            }
            idx[pos] = 0;
            pos += 1;
        }
    }
}

pub fn has_decision(tree: &Tree) -> bool {
    infosets(tree).iter().any(|i| i.iter().any(|d| d.actions.len() >= 2))
}

/// The valid-game universe of a tier, for checks whose cost per game is small
pub fn eval_bounds(ctx: &Ctx) -> Bounds {
    if ctx.thorough() {
        Bounds { max_internal: 4, max_arity: 3, max_leaves: 5, chance_infosets: true, degenerate: true }
    } else {
        Bounds { max_internal: 3, max_arity: 3, max_leaves: 5, chance_infosets: true, degenerate: true }
    }
}

pub fn universe_summary(ctx: &Ctx, bounds: &Bounds, skels: usize) {
    ctx.set(
        "universe",
        serde_json::json!({
            "max_internal_nodes": bounds.max_internal,
            "max_arity": bounds.max_arity,
            "max_leaves": bounds.max_leaves,
            "shared_chance_infosets": bounds.chance_infosets,
            "single_child_nodes": bounds.degenerate,
            "valid_skeletons": skels,
        }),
    );
    let _ = universe::ACTS;
}

/// Run the explicit-state exploration of the Strategies object (checks/api.rs) from every coarse
/// grid profile of every game of the small universe and the families, judging `invariant` at every
/// reachable state; counts go to the context
pub fn explore_api(ctx: &Ctx, class: &str, invariant: &(dyn Fn(&Tree, &crate::subject::G, &crate::subject::S, &Profile, &[api::Op]) -> Result<(), String> + Sync)) {
    use rayon::prelude::*;
    let small = Bounds { max_internal: 3, max_arity: 3, max_leaves: 5, chance_infosets: false, degenerate: true };
    let mut games: Vec<Tree> = universe::skeletons(&small).iter().enumerate().filter(|(_, s)| has_decision(s)).map(|(i, s)| universe::fill_distinct(s, i)).collect();
    games.extend(universe::families().into_iter().filter(|(n, _)| !n.starts_with("kuhn") && !n.starts_with("deep_chain_8")).map(|(_, t)| t));
    let totals = std::sync::Mutex::new((0u64, 0u64, 0usize, 0u64));
    games.par_iter().for_each(|tree| {
        if ctx.stopped() {
            return;
        }
        let game = match api::build_game(tree) {
            Some(g) => g,
            None => return,
        };
        let (profs, _) = profiles(tree, false, 10);
        for init in &profs {
            let res = api::explore(ctx, tree, &game, init, 3, class, &|obj, model, ops| invariant(tree, &game, obj, model, ops));
            let mut t = totals.lock().unwrap();
            t.0 += res.states;
            t.1 += res.transitions;
            t.2 = t.2.max(res.max_depth);
            t.3 += 1;
        }
    });
    let t = totals.lock().unwrap();
    ctx.add(&ctx.states, t.0);
    ctx.add(&ctx.evaluations, t.0);
    ctx.add(&ctx.validated, t.0);
    ctx.add(&ctx.nontrivial, t.0);
    ctx.add(&ctx.transitions, t.1);
    ctx.set("strategies_object_state_machine", serde_json::json!({"roots_(game,initial_profile)": t.3, "states_reached": t.0, "transitions": t.1, "max_depth": t.2, "alphabet": "truncate(0.25|0.5|0.6|0.3), re-import of the named view, clone"}));
}
