//! C16 — the program's options and input formats mean what the help text says.
//! Enumerated: game files (JSON, Gambit with constant 0 and 2) x the full product of discount (5) x
//! max-iters {1, 7} x max-regret {0, 0.3} x parallel {1, 2} x clip-threshold {0, 0.3, 0.5, 1.5} x input
//! route {file by extension, .txt + auto-detection, stdin + auto, stdin + explicit format, explicit
//! format under the wrong extension, explicit format under the right extension} x output {stdout,
//! -o file} with the deterministic method; the other methods on chance-free / draw-free games where
//! they are deterministic; max-iters 0 with an attainable max-regret.
//! Oracle: the printed strategies equal the in-process library solve of the file-level model with
//! the corresponding arguments (to the last bit when the program performs the same arithmetic:
//! one thread, constant 0, names already in the program's order; 1e-9 otherwise); with a clip
//! threshold the truncated profile is printed exactly when its reference regret is strictly lower;
//! a JSON and a Gambit encoding of one game print the same solution; -o writes the object to the
//! file and nothing to stdout.
use super::c08::ParamSpec;
use super::c15::DISCOUNTS;
use crate::cli::{efg_file, json_file, parse_output, printed_profile, run_cli, sanitize, work_dir, write_file, EfgStyle, GameFile, Printed};
use crate::framework::{close, guarded, Ctx};
use crate::refcfr::{ref_cfr, RefMethod};
use crate::refmodel::{game_dims, ref_eval, Profile};
use crate::subject::{build, read_profile};
use crate::tree::Tree;
use cfr::SolveMethod;
use rayon::prelude::*;
use serde_json::{json, Value};

#[derive(Debug, Clone)]
pub struct Options {
    pub method: &'static str,
    pub discount: usize,
    pub iters: u64,
    pub max_reg: f64,
    pub parallel: usize,
    pub clip: f64,
    /// 0: -i <file.ext>; 1: -i <file.txt> (auto); 2: stdin (auto); 3: stdin + explicit format;
    /// 4: explicit format, wrong extension; 5: explicit format, right extension
    pub route: u8,
    pub to_file: bool,
}

impl Options {
    fn args(&self) -> Vec<String> {
        vec!["-m".into(), self.method.into(), "-d".into(), DISCOUNTS[self.discount].into(), "-t".into(), self.iters.to_string(), "-r".into(), self.max_reg.to_string(), "-p".into(), self.parallel.to_string(), "-c".into(), self.clip.to_string()]
    }
    fn to_json(&self) -> Value {
        json!({"method": self.method, "discount": self.discount, "iters": self.iters, "max_reg": self.max_reg, "parallel": self.parallel, "clip": self.clip, "route": self.route, "to_file": self.to_file})
    }
    fn from_json(val: &Value) -> Options {
        let method = match val["method"].as_str() {
            Some("sampled") => "sampled",
            Some("external") => "external",
            _ => "full",
        };
        Options { method, discount: val["discount"].as_u64().unwrap() as usize, iters: val["iters"].as_u64().unwrap(), max_reg: val["max_reg"].as_f64().unwrap(), parallel: val["parallel"].as_u64().unwrap() as usize, clip: val["clip"].as_f64().unwrap(), route: val["route"].as_u64().unwrap() as u8, to_file: val["to_file"].as_bool().unwrap() }
    }
}

/// What the library returns for these options on the file-level model: the unclipped and the
/// clipped profile
fn library(model: &Tree, opts: &Options) -> Result<(Profile, Profile), String> {
    let game = build(model).map_err(|e| format!("model rejected: {:?}", e))?;
    let method = match opts.method {
        "sampled" => SolveMethod::Sampled,
        "external" => SolveMethod::External,
        _ => SolveMethod::Full,
    };
    let iters = if opts.iters == 0 { u64::MAX } else { opts.iters };
    let (strat, _) = game.solve(method, iters, opts.max_reg, 1, ParamSpec::Preset(opts.discount).implementation()).map_err(|e| format!("{:?}", e))?;
    let mut clipped = strat.clone();
    clipped.truncate(opts.clip);
    Ok((read_profile(model, &strat)?, read_profile(model, &clipped)?))
}

fn same_profile(a: &Profile, b: &Profile, exact: bool) -> bool {
    (0..2).all(|pl| a[pl].len() == b[pl].len() && a[pl].iter().all(|(k, v)| b[pl].get(k).map(|w| v.len() == w.len() && v.iter().zip(w.iter()).all(|(x, y)| if exact { x == y } else { close(*x, *y, 1e-9) })).unwrap_or(false)))
}

/// two outputs of the program print the same object (the program's maps are unordered)
fn same_output(a: &str, b: &str) -> bool {
    match (parse_output(a), parse_output(b)) {
        (Ok(x), Ok(y)) => x.strategies == y.strategies && x.regret.to_bits() == y.regret.to_bits() && x.utils.map(f64::to_bits) == y.utils.map(f64::to_bits) && x.regrets.map(f64::to_bits) == y.regrets.map(f64::to_bits),
        _ => false,
    }
}

pub struct Staged {
    pub file: GameFile,
    pub by_ext: String,
    pub as_txt: String,
    pub wrong_ext: String,
    pub out_path: String,
}

pub fn check_run(ctx: &Ctx, staged: &Staged, opts: &Options) -> Option<Printed> {
    let file = &staged.file;
    let format_flag = if file.format == "json" { "json" } else { "gambit" };
    let mut args = opts.args();
    let mut stdin: Option<&str> = None;
    match opts.route {
        0 => args.extend(["-i".to_string(), staged.by_ext.clone()]),
        1 => args.extend(["-i".to_string(), staged.as_txt.clone()]),
        2 => stdin = Some(&file.text),
        3 => {
            stdin = Some(&file.text);
            args.extend(["--input-format".to_string(), format_flag.to_string()]);
        }
        4 => args.extend(["-i".to_string(), staged.wrong_ext.clone(), "--input-format".to_string(), format_flag.to_string()]),
        _ => args.extend(["-i".to_string(), staged.by_ext.clone(), "--input-format".to_string(), format_flag.to_string()]),
    }
    let out_path = format!("{}.{:?}", staged.out_path, std::thread::current().id()).replace(['(', ')'], "_");
    if opts.to_file {
        // the destination already holds an earlier, longer result: the program must replace it
        let stale = format!("{{\"regret\":0.0,\"player_one_strategy\":{{{}}}}}", (0..200).map(|i| format!("\"old infoset {}\":{{\"a\":0.5,\"b\":0.5}}", i)).collect::<Vec<_>>().join(","));
        let _ = std::fs::write(&out_path, stale);
        args.extend(["-o".to_string(), out_path.clone()]);
    }
    let replay = json!({"file": file.text, "format": file.format, "model": file.model.to_replay(), "sum": file.sum, "label": file.label, "options": opts.to_json()});
    let label = format!("`cfr {}`{} on {}", args.join(" "), if stdin.is_some() { " < file" } else { "" }, file.label);
    let out = run_cli(&args, stdin, 60);
    ctx.case(1, true);
    if out.timed_out || out.code != Some(0) {
        ctx.violation("run-failed", &format!("exit {:?} timed_out {} stderr {:?}: {}", out.code, out.timed_out, out.stderr.lines().nth(1).unwrap_or("").chars().take(200).collect::<String>(), label), replay);
        return None;
    }
    let text = if opts.to_file {
        if !out.stdout.trim().is_empty() {
            ctx.violation("output-destination", &format!("-o was given but stdout is not empty: {}", label), replay.clone());
        }
        let text = std::fs::read_to_string(&out_path).unwrap_or_default();
        let _ = std::fs::remove_file(&out_path);
        text
    } else {
        out.stdout.clone()
    };
    let printed = match parse_output(&text) {
        Ok(p) => p,
        Err(msg) => {
            ctx.violation("output-format", &format!("{}: {}", msg, label), replay);
            return None;
        }
    };
    let prof = match printed_profile(&file.model, &printed) {
        Ok(p) => p,
        Err(msg) => {
            ctx.violation("printed-strategy-invalid", &format!("{}: {}", msg, label), replay);
            return None;
        }
    };
    let (plain, clipped) = match guarded(|| library(&file.model, opts)) {
        Ok(Ok(pair)) => pair,
        Ok(Err(msg)) | Err(msg) => {
            ctx.violation("library-run-failed", &format!("{}: {}", msg, label), replay);
            return None;
        }
    };
    // the same arithmetic is performed only at one thread, without a payoff shift, in the program's
    // own node order
    // (a Gambit file carries probabilities as fractions: the program re-normalises 1/6 + ... + 1/6,
    // the model normalises 1 + ... + 1, which differ in the last bit; JSON carries the model's
    // numbers verbatim)
    let exact = opts.parallel == 1 && file.format == "json" && file.canonical_order;
    let is_plain = same_profile(&prof, &plain, exact);
    let is_clipped = same_profile(&prof, &clipped, exact);
    if !is_plain && !is_clipped {
        // not judged where the specification reports a discontinuity and the comparison is inexact
        let flagged = !exact && ref_cfr(&file.model, RefMethod::Full, ParamSpec::Preset(opts.discount).reference(), opts.iters.clamp(1, 64), &mut |_, _| None).map(|r| r.flags.any()).unwrap_or(false);
        if flagged && opts.method == "full" {
            ctx.count("ill_conditioned_(tie_or_near_zero_regret_sum;_differs;_not_compared)", 1);
        } else {
            ctx.violation("differs-from-library", &format!("printed {:?}; the library gives {:?} (clipped: {:?}): {}", prof, plain, clipped, label), replay);
        }
        return Some(printed);
    }
    // the clip rule: the truncated profile is printed exactly when its regret is strictly lower
    if !same_profile(&plain, &clipped, true) {
        let (d, _, _) = game_dims(&file.model);
        let tol = 1e-12 * f64::max(1.0, d);
        let (r_plain, r_clip) = (ref_eval(&file.model, &plain).regret(), ref_eval(&file.model, &clipped).regret());
        if r_clip < r_plain - tol && !is_clipped {
            ctx.violation("clip-not-applied", &format!("the truncated profile has lower regret ({} < {}) but the untruncated one was printed: {}", r_clip, r_plain, label), replay);
        } else if r_clip > r_plain + tol && !is_plain {
            ctx.violation("clip-applied-wrongly", &format!("the truncated profile does not have lower regret ({} vs {}) but it was printed: {}", r_clip, r_plain, label), replay);
        } else {
            ctx.count("clip_decisions_checked", 1);
        }
    }
    Some(printed)
}

fn stage(dir: &std::path::Path, file: GameFile, ind: usize) -> Staged {
    let base = format!("{}-{}", ind, sanitize(&file.label));
    let wrong = if file.format == "json" { "efg" } else { "json" };
    Staged {
        by_ext: write_file(dir, &format!("{}.{}", base, file.format), &file.text),
        as_txt: write_file(dir, &format!("{}.txt", base), &file.text),
        wrong_ext: write_file(dir, &format!("{}-wrong.{}", base, wrong), &file.text),
        out_path: dir.join(format!("{}.out", base)).to_string_lossy().to_string(),
        file,
    }
}

pub fn run(ctx: &Ctx) -> i32 {
    use crate::universe::*;
    let mut games: Vec<(String, Tree)> = vec![
        ("matching_pennies".into(), matching_pennies()),
        ("kuhn".into(), kuhn()),
        ("no_decision_p2".into(), no_decision_p2()),
        ("wide_shared_3".into(), wide_shared(3)),
        ("rare_chance_1e1".into(), rare_chance(1)),
        ("single_terminal".into(), Tree::T(1.5)),
    ];
    games.extend(crate::checks::c06::collision_games().into_iter().filter(|(n, _)| n == "two_level_shared" || n == "shared_chance_below" || n == "wide_shared_nondyadic"));
    games.extend(crate::cli::cli_games(false).into_iter().filter(|(n, _)| n == "escaped_names" || n == "hidden_then_own"));
    let tiny = Bounds { max_internal: 2, max_arity: 3, max_leaves: 5, chance_infosets: true, degenerate: true };
    let step = if ctx.thorough() { 11 } else { 45 };
    games.extend(skeletons(&tiny).iter().enumerate().filter(|(_, s)| crate::checks::has_decision(s)).step_by(step).map(|(i, s)| (format!("u{}", i), fill_distinct(s, i))));
    let dir = work_dir("C16");
    let mut staged = Vec::new();
    for (gi, (name, tree)) in games.iter().enumerate() {
        // (the JSON text in one of three layouts, by position in the game list)
        if let Some(file) = crate::cli::json_file_layout(name, tree, gi) {
            staged.push(stage(&dir, file, staged.len()));
        }
        staged.push(stage(&dir, efg_file(name, tree, EfgStyle::PLAIN), staged.len()));
        staged.push(stage(&dir, efg_file(name, tree, EfgStyle { sum: 2.0, ..EfgStyle::PLAIN }), staged.len()));
        // payoffs spread over interior nodes (outcomes on nodes below nodes that carry one), shared
        // by number: still the same game, so still the library's solution of the model
        staged.push(stage(&dir, efg_file(name, tree, EfgStyle { interior: true, share_outcomes: true, ..EfgStyle::PLAIN }), staged.len()));
    }
    ctx.set("games", json!(games.len()));
    ctx.set("files", json!(staged.len()));
    // the option lattice of the deterministic method
    let mut lattice = Vec::new();
    for discount in 0..5 {
        for iters in [1u64, 7] {
            for max_reg in [0.0, 0.3] {
                for parallel in [1usize, 2] {
                    for clip in [0.0, 0.3, 0.5, 1.5] {
                        for route in 0..6u8 {
                            for to_file in [false, true] {
                                lattice.push(Options { method: "full", discount, iters, max_reg, parallel, clip, route, to_file });
                            }
                        }
                    }
                }
            }
        }
    }
    ctx.set("option_lattice_size", json!(lattice.len()));
    let work: Vec<(usize, usize)> = (0..staged.len()).flat_map(|f| (0..lattice.len()).map(move |o| (f, o))).collect();
    // quick: every file sees a rotating sixth of the lattice (every value of every option, and
    // every pair of route x output, occurs for every file); thorough: the full product
    work.par_iter().for_each(|(fi, oi)| {
        if ctx.stopped() || (!ctx.thorough() && (fi * 7 + oi) % 6 != 0) {
            return;
        }
        check_run(ctx, &staged[*fi], &lattice[*oi]);
        if (fi * 1920 + oi) % 20011 == 0 {
            let mut args = lattice[*oi].args();
            args.push(format!("route {} / {}", lattice[*oi].route, if lattice[*oi].to_file { "-o file" } else { "stdout" }));
            ctx.sample("program run compared with the in-process library solve", json!({"file": staged[*fi].file.label, "format": staged[*fi].file.format, "args": args}));
        }
    });
    ctx.sample("option lattice", json!({"discount": super::c15::DISCOUNTS, "max_iters": [1, 7], "max_regret": [0.0, 0.3], "parallel": [1, 2], "clip_threshold": [0.0, 0.3, 0.5, 1.5], "input_route": ["-i file.<ext>", "-i file.txt (auto)", "stdin (auto)", "stdin + --input-format", "--input-format with the wrong extension", "--input-format with the right extension"], "output": ["stdout", "-o file"]}));
    // one game, two encodings: the same solution
    staged.par_iter().for_each(|st| {
        if st.file.format != "json" {
            return;
        }
        let name = st.file.label.clone();
        for efg in staged.iter().filter(|o| o.file.format == "efg" && o.file.sum == 0.0 && o.file.label.starts_with(&format!("{}:", name))) {
            for discount in 0..5 {
                let opts = Options { method: "full", discount, iters: 7, max_reg: 0.0, parallel: 1, clip: 0.0, route: 0, to_file: false };
                if let (Some(a), Some(b)) = (check_run(ctx, st, &opts), check_run(ctx, efg, &opts)) {
                    ctx.count("json_vs_gambit_pairs", 1);
                    let same = a.strategies == b.strategies || (printed_profile(&st.file.model, &a).ok().zip(printed_profile(&efg.file.model, &b).ok()).map(|(x, y)| same_profile(&x, &y, false)).unwrap_or(false));
                    if !same {
                        ctx.violation("encodings-differ", &format!("the JSON and the Gambit encoding of {} print different strategies: {:?} vs {:?}", name, a.strategies, b.strategies), json!({"file": st.file.text, "format": "json", "model": st.file.model.to_replay(), "sum": 0.0, "label": name, "options": opts.to_json()}));
                    }
                }
            }
        }
    });
    // the other methods where they are deterministic: chance-sampling on chance-free games is the
    // unsampled solver; max-iters 0 means "until the regret threshold"
    staged.par_iter().for_each(|st| {
        let mut has_chance = false;
        st.file.model.walk(&mut |n| has_chance |= matches!(n, Tree::C(..)));
        if !has_chance {
            for discount in [0usize, 3] {
                let opts = Options { method: "sampled", discount, iters: 7, max_reg: 0.0, parallel: 1, clip: 0.0, route: 0, to_file: false };
                check_run(ctx, st, &opts);
                ctx.count("sampled_on_chance_free_games", 1);
            }
        }
        if ["matching_pennies", "kuhn", "wide_shared_3"].iter().any(|n| st.file.label.starts_with(n)) {
            let opts = Options { method: "full", discount: 0, iters: 0, max_reg: 0.5, parallel: 1, clip: 0.0, route: 0, to_file: false };
            check_run(ctx, st, &opts);
            ctx.count("max_iters_zero_runs", 1);
        }
    });
    // defaults: what the help text prints as [default: ...] must be what an omitted option means
    {
        use crate::tree::{p, t};
        let solo = p(0, "x", vec![("a", p(0, "y", vec![("c", t(1.0)), ("d", t(-2.0))])), ("b", t(0.5))]);
        let mut dstaged = Vec::new();
        for (name, tree) in [("solo_decisions".to_string(), solo), ("matching_pennies".to_string(), matching_pennies()), ("kuhn".to_string(), kuhn())] {
            if let Some(file) = json_file(&name, &tree) {
                dstaged.push(stage(&dir, file, 1000 + dstaged.len()));
            }
        }
        // (flag to omit, the value the help text gives as its default)
        let explicit: Vec<(&str, &str)> = vec![("-d", "dcfr"), ("-t", "1000"), ("-r", "0"), ("-c", "0"), ("--input-format", "auto"), ("-o", "-")];
        for st in &dstaged {
            let full: Vec<String> = vec!["-i".into(), st.by_ext.clone(), "-m".into(), "full".into(), "-p".into(), "1".into()];
            let mut reference = full.clone();
            for (flag, val) in &explicit {
                reference.extend([flag.to_string(), val.to_string()]);
            }
            let want = run_cli(&reference, None, 120);
            for skip in 0..explicit.len() {
                let mut args = full.clone();
                for (i, (flag, val)) in explicit.iter().enumerate() {
                    if i != skip {
                        args.extend([flag.to_string(), val.to_string()]);
                    }
                }
                let got = run_cli(&args, None, 120);
                ctx.case(1, true);
                ctx.count("default_value_runs", 1);
                if got.code != Some(0) || !same_output(&got.stdout, &want.stdout) {
                    ctx.violation("default-differs", &format!("omitting {} does not mean {} {}: `cfr {}` printed {:?}, with the explicit value {:?} on {}", explicit[skip].0, explicit[skip].0, explicit[skip].1, args[2..].join(" "), got.stdout.chars().take(200).collect::<String>(), want.stdout.chars().take(200).collect::<String>(), st.file.label), json!({"file": st.file.text, "format": "json", "model": st.file.model.to_replay(), "sum": 0.0, "label": st.file.label, "options": Options { method: "full", discount: 3, iters: 1000, max_reg: 0.0, parallel: 1, clip: 0.0, route: 0, to_file: false }.to_json()}));
                }
            }
        }
        // the default method is the external one: on a game with a single decision maker and no
        // chance it is deterministic, so omitting -m must print what -m external prints, and that
        // is the library's External solve
        let st = &dstaged[0];
        let base: Vec<String> = vec!["-i".into(), st.by_ext.clone(), "-p".into(), "1".into(), "-t".into(), "50".into()];
        let mut with = base.clone();
        with.extend(["-m".to_string(), "external".to_string()]);
        let (a, b) = (run_cli(&base, None, 60), run_cli(&with, None, 60));
        ctx.case(1, true);
        if a.code != Some(0) || !same_output(&a.stdout, &b.stdout) {
            ctx.violation("default-differs", &format!("omitting -m does not mean -m external on a draw-free game: {:?} vs {:?}", a.stdout.chars().take(200).collect::<String>(), b.stdout.chars().take(200).collect::<String>()), json!({"file": st.file.text, "format": "json", "model": st.file.model.to_replay(), "sum": 0.0, "label": st.file.label, "options": Options { method: "external", discount: 3, iters: 50, max_reg: 0.0, parallel: 1, clip: 0.0, route: 0, to_file: false }.to_json()}));
        }
        let opts = Options { method: "external", discount: 3, iters: 50, max_reg: 0.0, parallel: 1, clip: 0.0, route: 0, to_file: false };
        check_run(ctx, st, &opts);
        // -p 0 (the default: all cores) is a performance setting only
        let mut auto = vec!["-i".to_string(), dstaged[2].by_ext.clone(), "-m".to_string(), "full".to_string(), "-t".to_string(), "20".to_string()];
        let got = run_cli(&auto, None, 120);
        auto.extend(["-p".to_string(), "1".to_string()]);
        let want = run_cli(&auto, None, 120);
        ctx.case(1, true);
        match (parse_output(&got.stdout), parse_output(&want.stdout)) {
            (Ok(x), Ok(y)) => {
                let near = x.strategies.iter().zip(y.strategies.iter()).all(|(m, n)| m.len() == n.len() && m.iter().all(|(k, v)| n.get(k).map(|w| v.len() == w.len() && v.iter().all(|(a, pa)| w.get(a).map(|pb| close(*pa, *pb, 1e-9)).unwrap_or(false))).unwrap_or(false)));
                if !near {
                    ctx.violation("default-differs", "omitting -p (all cores) prints other strategies than -p 1 for the deterministic method on kuhn", json!({"file": dstaged[2].file.text, "format": "json", "model": dstaged[2].file.model.to_replay(), "sum": 0.0, "label": "kuhn", "options": Options { method: "full", discount: 3, iters: 20, max_reg: 0.0, parallel: 2, clip: 0.0, route: 0, to_file: false }.to_json()}));
                }
            }
            _ => ctx.violation("run-failed", "a run with the default parallelism failed", json!({"label": "kuhn default parallelism"})),
        }
    }
    let _ = std::fs::remove_dir_all(&dir);
    ctx.assume("the external method is random on every game with an opponent decision, so only its option parsing and output validity are covered (C15); its semantics are C08 / C10");
    ctx.assume("the quick tier runs a rotating sixth of the option lattice per file (the full product in the thorough tier)");
    ctx.finish(
        "game files (JSON, Gambit constant 0 and 2) x the lattice discount x max-iters x max-regret x parallel x clip-threshold x input route x output destination with the deterministic method, plus JSON-vs-Gambit pairs, chance-sampling on chance-free games and max-iters 0; states = program runs compared with the in-process library solve",
        true,
        "every enumerated invocation of the real binary is compared with the library called in-process with the arguments the help text promises, on the file-level model the file was generated from",
    )
}

pub fn replay(ctx: &Ctx, val: &Value) -> i32 {
    let dir = work_dir("C16-replay");
    let format: &'static str = if val["format"].as_str() == Some("json") { "json" } else { "efg" };
    let model = Tree::from_replay(&val["model"]);
    let canonical_order = crate::cli::names_sorted(&model);
    let file = GameFile { label: val["label"].as_str().unwrap_or("replay").to_string(), text: val["file"].as_str().unwrap().to_string(), format, model, sum: val["sum"].as_f64().unwrap_or(0.0), canonical_order };
    let staged = stage(&dir, file, 0);
    let before = ctx.num_violations();
    check_run(ctx, &staged, &Options::from_json(&val["options"]));
    let _ = std::fs::remove_dir_all(&dir);
    let ok = ctx.num_violations() == before;
    println!("replay {}", if ok { "passes" } else { "fails" });
    if ok {
        0
    } else {
        1
    }
}
