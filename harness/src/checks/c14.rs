//! C14 — strategy import validates, normalises, and both import paths agree.
//! Enumerated: a set of games covering {both players, single-action infosets, names shared across
//! players, a player without infosets} x every candidate for the player under test built from
//! <= E infoset entries (name in {each real infoset, the other player's, unknown}) x <= 2 action
//! entries each (action in {each legal, illegal}, weight from the weight alphabet); all orders,
//! duplicates included. The other player gets a fixed valid strategy.
//! Oracle: refmodel::ref_import_player (the statement transcribed) and from_named == from_named_eq.
use crate::framework::{guarded, Ctx};
use crate::refmodel::{infosets, ref_import_player, InfoDesc, NamedInput, StratRule};
use crate::subject::{build, G};
use crate::tree::{c, p, t, Tree};
use rayon::prelude::*;
use serde_json::{json, Value};

fn games() -> Vec<(&'static str, Tree)> {
    vec![
        (
            "baseline test game (single-action x, multi y / z)",
            p(0, "x", vec![("a", p(1, "z", vec![("b", p(0, "y", vec![("c", t(0.0)), ("d", t(1.0))])), ("c", t(0.5))]))]),
        ),
        (
            "same infoset name for both players",
            c(None, vec![
                (1.0, p(0, "s", vec![("a", t(1.0)), ("b", t(0.0))])),
                (1.0, p(1, "s", vec![("a", t(0.0)), ("b", t(2.0)), ("c", t(-1.0))])),
            ]),
        ),
        (
            "player two never moves",
            c(None, vec![
                (1.0, p(0, "u", vec![("a", t(1.0)), ("b", t(-1.0))])),
                (3.0, p(0, "v", vec![("a", t(-2.0)), ("b", t(0.5))])),
            ]),
        ),
        (
            "only single-action infosets",
            p(0, "m", vec![("go", p(1, "n", vec![("on", t(1.0))]))]),
        ),
        (
            "two multi-action infosets and a single for one player",
            p(1, "r", vec![
                ("l", p(1, "q", vec![("a", t(1.0)), ("b", t(0.0)), ("c", t(3.0))])),
                ("r", p(1, "w", vec![("only", p(0, "k", vec![("a", t(0.0)), ("b", t(1.0))]))])),
            ]),
        ),
        ("no infosets at all", t(1.0)),
    ]
}

/// games for the full-view permutation pass: a player with three and more multi-action infosets,
/// and one whose infosets list the same action names in different orders
pub fn permutation_games() -> Vec<(String, Tree)> {
    let mut res: Vec<(String, Tree)> = vec![
        ("hidden_then_own".into(), crate::universe::hidden_then_own()),
        ("kuhn".into(), crate::universe::kuhn()),
        ("deep_chain_6".into(), crate::universe::deep_chain(6)),
        ("two_level_own_chance".into(), crate::universe::two_level_own(true)),
    ];
    res.push((
        "same action names in different orders".into(),
        c(None, vec![
            (1.0, p(0, "x", vec![("call", t(1.0)), ("fold", t(0.0))])),
            (1.0, p(0, "y", vec![("fold", t(0.0)), ("call", t(2.0))])),
            (1.0, p(0, "z", vec![("raise", t(0.5)), ("call", t(-1.0)), ("fold", t(0.0))])),
            (1.0, p(1, "w", vec![("fold", p(1, "v", vec![("call", t(0.0)), ("fold", t(1.0))])), ("call", t(0.5))])),
        ]),
    ));
    res
}

fn permutations(n: usize, cap: usize) -> Vec<Vec<usize>> {
    fn rec(cur: &mut Vec<usize>, used: &mut Vec<bool>, out: &mut Vec<Vec<usize>>, cap: usize) {
        if out.len() >= cap {
            return;
        }
        if cur.len() == used.len() {
            out.push(cur.clone());
            return;
        }
        for i in 0..used.len() {
            if !used[i] {
                used[i] = true;
                cur.push(i);
                rec(cur, used, out, cap);
                cur.pop();
                used[i] = false;
            }
        }
    }
    let mut out = Vec::new();
    rec(&mut Vec::new(), &mut vec![false; n], &mut out, cap);
    // plus rotations and the reversal when the cap cut the enumeration
    for r in 1..n {
        out.push((0..n).map(|i| (i + r) % n).collect());
    }
    out.push((0..n).rev().collect());
    out
}

const W_FULL: [f64; 11] = [1.0, 0.0, 3.0, -1.0, -0.0, 5e-324, 1e-300, 1e300, f64::NAN, f64::INFINITY, f64::NEG_INFINITY];
const W_SMALL: [f64; 5] = [1.0, 0.0, 3.0, -1.0, f64::NAN];

fn num(val: f64) -> Value {
    if val.is_finite() {
        json!(val)
    } else {
        json!(format!("{}", val))
    }
}

fn input_json(inp: &NamedInput) -> Value {
    json!(inp
        .iter()
        .map(|(i, acts)| json!([i, acts.iter().map(|(a, w)| json!([a, num(*w)])).collect::<Vec<_>>()]))
        .collect::<Vec<_>>())
}

fn input_from_json(val: &Value) -> NamedInput {
    val.as_array()
        .unwrap()
        .iter()
        .map(|ent| {
            (
                ent[0].as_str().unwrap().to_string(),
                ent[1]
                    .as_array()
                    .unwrap()
                    .iter()
                    .map(|a| {
                        let w = match &a[1] {
                            Value::String(s) => s.parse::<f64>().unwrap(),
                            other => other.as_f64().unwrap(),
                        };
                        (a[0].as_str().unwrap().to_string(), w)
                    })
                    .collect(),
            )
        })
        .collect()
}

/// all action-entry lists for one infoset entry
fn action_lists(desc: Option<&InfoDesc>, max_len: usize) -> Vec<Vec<(String, f64)>> {
    let mut names: Vec<String> = desc.map(|d| d.actions.clone()).unwrap_or_else(|| vec!["a".to_string()]);
    names.push("illegal".to_string());
    let mut res = vec![vec![]];
    for first in &names {
        for w1 in W_FULL {
            res.push(vec![(first.clone(), w1)]);
            if max_len >= 2 {
                for second in &names {
                    for w2 in W_SMALL {
                        res.push(vec![(first.clone(), w1), (second.clone(), w2)]);
                    }
                }
            }
        }
    }
    res
}

fn valid_strategy(infos: &[InfoDesc]) -> NamedInput {
    infos
        .iter()
        .map(|d| (d.name.clone(), d.actions.iter().enumerate().map(|(i, a)| (a.clone(), 1.0 + i as f64)).collect()))
        .collect()
}

fn kind_of(err: cfr::StratError) -> StratRule {
    match format!("{:?}", err).as_str() {
        "InvalidInfoset" => StratRule::InvalidInfoset,
        "InvalidAction" => StratRule::InvalidAction,
        "InvalidProbability" => StratRule::InvalidProbability,
        _ => StratRule::UninitializedInfoset,
    }
}

/// true when the statement does not settle the case: a single-action infoset that is mentioned,
/// but never with an action entry
fn unsettled(infos: &[InfoDesc], input: &NamedInput) -> bool {
    infos.iter().filter(|d| d.actions.len() == 1).any(|d| {
        let mentions: Vec<&Vec<(String, f64)>> = input.iter().filter(|(i, _)| *i == d.name).map(|(_, a)| a).collect();
        !mentions.is_empty() && mentions.iter().all(|a| a.is_empty())
    })
}

pub fn check_case(ctx: &Ctx, game: &G, tree: &Tree, player: usize, input: &NamedInput) -> bool {
    let infos = infosets(tree);
    let other = valid_strategy(&infos[1 - player]);
    let pair = |inp: &NamedInput| -> [NamedInput; 2] {
        if player == 0 {
            [inp.clone(), other.clone()]
        } else {
            [other.clone(), inp.clone()]
        }
    };
    let replay = json!({"tree": tree.to_replay(), "player": player, "input": input_json(input)});
    let res = guarded(|| (game.from_named(pair(input)), game.from_named_eq(pair(input))));
    let (fast, slow) = match res {
        Err(msg) => {
            ctx.violation("panic", &format!("{} for {}", msg, input_json(input)), replay);
            return false;
        }
        Ok(pair) => pair,
    };
    let mut ok = true;
    let mut fail = |class: &str, what: String| {
        ctx.violation(class, &format!("{} for player {} input {} on {}", what, player + 1, input_json(input), tree.show()), replay.clone());
        ok = false;
    };
    match (&fast, &slow) {
        (Ok(a), Ok(b)) => {
            let (ra, rb) = (cfr::verif::raw_probs(a), cfr::verif::raw_probs(b));
            if ra[0].iter().chain(ra[1].iter()).map(|x| x.to_bits()).ne(rb[0].iter().chain(rb[1].iter()).map(|x| x.to_bits())) {
                fail("paths-differ", format!("from_named gives {:?}, from_named_eq gives {:?}", ra, rb));
            }
        }
        (Err(a), Err(b)) => {
            if a != b {
                fail("paths-differ", format!("from_named fails with {:?}, from_named_eq with {:?}", a, b));
            }
        }
        (a, b) => fail("paths-differ", format!("from_named {:?} but from_named_eq {:?}", a.as_ref().map(|_| "Ok").map_err(|e| *e), b.as_ref().map(|_| "Ok").map_err(|e| *e))),
    }
    if unsettled(&infos[player], input) {
        ctx.count("unsettled_by_statement_(paths_compared_only)", 1);
        return ok;
    }
    let want = ref_import_player(&infos[player], input);
    match (&fast, &want) {
        (Ok(strat), Ok(dist)) => {
            // compare the normalised result through the public named view
            match crate::subject::read_profile(tree, strat) {
                Err(msg) => fail("named-view", msg),
                Ok(prof) => {
                    for (info, probs) in dist {
                        let got = &prof[player][info];
                        if got.len() != probs.len() || got.iter().zip(probs.iter()).any(|(g, w)| (g - w).abs() > 1e-12) {
                            fail("wrong-normalisation", format!("infoset {} imported as {:?}, statement says {:?}", info, got, probs));
                        }
                    }
                }
            }
        }
        (Ok(_), Err(rules)) => fail(&format!("accepted-invalid:{:?}", rules), format!("accepted although it violates {:?}", rules)),
        (Err(err), Ok(_)) => fail(&format!("rejected-valid:{:?}", err), format!("rejected with {:?} although it is valid", err)),
        (Err(err), Err(rules)) => {
            if !rules.contains(&kind_of(*err)) {
                fail(&format!("wrong-error:{:?}", err), format!("error {:?} but the violated rules are {:?}", err, rules));
            }
        }
    }
    ok
}

/// complete valid views with non-uniform weights, their infoset entries in every order (all
/// permutations up to 4 entries, 120 + rotations + reversal beyond) and each entry's actions in
/// two orders
fn permutation_pass(ctx: &Ctx) {
    for (name, tree) in permutation_games() {
        let game = match build(&tree) {
            Ok(g) => g,
            Err(_) => continue,
        };
        let infos = infosets(&tree);
        for player in 0..2 {
            let base: NamedInput = infos[player].iter().enumerate().map(|(k, d)| (d.name.clone(), d.actions.iter().enumerate().map(|(i, a)| (a.clone(), 1.0 + ((i + k) % 3) as f64 * 0.75)).collect())).collect();
            if base.len() < 2 {
                continue;
            }
            for perm in permutations(base.len(), 120) {
                for flip in [false, true] {
                    let input: NamedInput = perm
                        .iter()
                        .map(|i| {
                            let (info, acts) = &base[*i];
                            let mut acts = acts.clone();
                            if flip {
                                acts.reverse();
                            }
                            (info.clone(), acts)
                        })
                        .collect();
                    check_case(ctx, &game, &tree, player, &input);
                    ctx.case(input.len() as u64, true);
                    ctx.count("full_view_permutations", 1);
                }
            }
        }
        let _ = name;
    }
}

pub fn run(ctx: &Ctx) -> i32 {
    permutation_pass(ctx);
    let entries = if ctx.thorough() { 3 } else { 2 };
    for (gname, tree) in games() {
        let game = build(&tree).expect("C14 games are valid");
        let infos = infosets(&tree);
        for player in 0..2 {
            // the names an entry can carry
            let mut names: Vec<(String, Option<InfoDesc>)> = infos[player].iter().map(|d| (d.name.clone(), Some(d.clone()))).collect();
            for d in &infos[1 - player] {
                if !names.iter().any(|(n, _)| *n == d.name) {
                    names.push((d.name.clone(), None));
                    break;
                }
            }
            names.push(("unknown".to_string(), None));
            // all single entries
            let mut single: Vec<(String, Vec<(String, f64)>)> = Vec::new();
            for (name, desc) in &names {
                for acts in action_lists(desc.as_ref(), 2) {
                    single.push((name.clone(), acts));
                }
            }
            // reduced entries for positions beyond the first two
            let mut reduced: Vec<(String, Vec<(String, f64)>)> = Vec::new();
            for (name, desc) in &names {
                for acts in action_lists(desc.as_ref(), 1) {
                    if acts.iter().all(|(_, w)| W_SMALL.iter().any(|s| s.to_bits() == w.to_bits())) {
                        reduced.push((name.clone(), acts));
                    }
                }
            }
            ctx.count("single_entry_alphabet", single.len() as u64);
            // length 0 and 1
            check_case(ctx, &game, &tree, player, &vec![]);
            ctx.case(1, true);
            single.par_iter().for_each(|first| {
                if ctx.stopped() {
                    return;
                }
                check_case(ctx, &game, &tree, player, &vec![first.clone()]);
                ctx.case(1, true);
                // length 2: first x (full alphabet for the second when the first is short, reduced otherwise)
                let seconds: &Vec<_> = if first.1.len() <= 1 || ctx.thorough() { &single } else { &reduced };
                for second in seconds {
                    let input = vec![first.clone(), second.clone()];
                    check_case(ctx, &game, &tree, player, &input);
                    ctx.case(2, true);
                    if entries >= 3 && first.1.len() <= 1 && second.1.len() <= 1 {
                        for third in &reduced {
                            let input = vec![first.clone(), second.clone(), third.clone()];
                            check_case(ctx, &game, &tree, player, &input);
                            ctx.case(3, true);
                        }
                    }
                }
            });
            ctx.sample("game+player", json!({"game": gname, "tree": tree.show(), "player": player + 1, "example_input": input_json(&vec![single[single.len() / 3].clone(), single[single.len() / 2].clone()])}));
        }
    }
    ctx.assume("weights whose sum overflows (two entries of 1e308) are outside the alphabet");
    ctx.assume("a single-action infoset mentioned only with an empty action list is not settled by the statement: only the two import paths are compared there");
    ctx.finish(
        "six games x both players x every candidate of <= 2 (thorough: 3) infoset entries with <= 2 action entries each over names {real infosets, other player's, unknown}, actions {legal, illegal}, weights {1,0,3,-1,-0,5e-324,1e-300,1e300,NaN,+-inf}; all orders and duplicates; every candidate is distinct by construction and non-trivial",
        true,
        "E-INPUT: every candidate goes through Game::from_named and Game::from_named_eq; outcomes compared with each other (bitwise) and with the reference import (statement transcribed)",
    )
}

pub fn replay(ctx: &Ctx, val: &Value) -> i32 {
    let tree = Tree::from_replay(&val["tree"]);
    let game = build(&tree).unwrap();
    let ok = check_case(ctx, &game, &tree, val["player"].as_u64().unwrap() as usize, &input_from_json(&val["input"]));
    println!("replay {}", if ok { "passes" } else { "fails" });
    if ok { 0 } else { 1 }
}
