//! C07 — the sampled solvers are thread-count invariant once the random choices are fixed.
//!
//! The sampling hook pins every draw by its key (kind, infoset, pass), so one decision map is valid
//! for one thread, for every task decomposition and for every schedule. For every game x {Sampled,
//! External} x presets x budgets, EVERY draw history is enumerated on the one-thread solver
//! (E-CHOICE); each history then pins
//!   layer 1a: the multi-threaded solver under every task target 1..=12 with all batches
//!             sequentialised (loom workers, decomposition mode): the frontier split;
//!   layer 1b: the real pool through the public entry point on the larger families (hash-pinned
//!             histories);
//!   layer 2 : the multi-threaded solver under loom, every interleaving of its worker tasks.
//! Oracle: strategies and bounds within 1e-9 of the one-thread run; the same draw keys with the
//! same distributions, at most one draw per (infoset, pass); no panic (in particular no worker
//! meeting another in one infoset), no error, no deadlock.
use super::c06::collision_games;
use super::c08::{method_name, ParamSpec};
use super::universe_summary;
use crate::explore::{explore, script_of, Fallback};
use crate::framework::{guarded, par_for_each, Ctx};
use crate::multi::{check_real, judge_loom, loom_available, loom_case, report_loom, run_loom, sequential, Config, LoomBounds, LoomTotals, SeqRun};
use crate::refcfr::{ref_cfr, RefMethod};
use crate::runner::{align, run_impl, translate_log, Alignment};
use crate::subject::{build, G};
use crate::tree::Tree;
use crate::universe::{families, fill_distinct, kary_alternating, skeletons, Bounds};
use rayon::prelude::*;
use serde_json::{json, Value};
use std::collections::BTreeMap;

pub const SAMPLED: [RefMethod; 2] = [RefMethod::Sampled, RefMethod::External];

/// Every draw history of the one-thread solver for (tree, method, spec, iters): the pinned
/// configuration and its one-thread run. `capped` is set when the history count exceeded `cap`.
pub fn histories(ctx: &Ctx, tree: &Tree, game: &G, al: &Alignment, method: RefMethod, spec: ParamSpec, iters: u64, max_reg: f64, cap: u64) -> (Vec<(Config, SeqRun)>, bool) {
    let mut out = Vec::new();
    let stats = explore(
        |decider| guarded(|| run_impl(tree, game, method, iters, max_reg, 1, None, spec.implementation(), decider)),
        |log, _prob, res| {
            let cfg = Config { method, spec, iters, max_reg, script: script_of(log), fallback: Fallback::First };
            match res {
                Ok(Ok(run)) => {
                    let flagged = match translate_log(al, method, log) {
                        Ok(decisions) => {
                            let mut decide = |key: &crate::refcfr::RefKey, _: &[f64]| decisions.get(key).map(|(_, c)| *c);
                            ref_cfr(tree, method, spec.reference(), iters, &mut decide).map(|r| r.flags.any()).unwrap_or(false)
                        }
                        Err(_) => false,
                    };
                    out.push((cfg, SeqRun { out: run, log: log.to_vec(), flagged }));
                }
                Ok(Err(msg)) | Err(msg) => ctx.violation("one-thread-run-failed", &format!("{} {}", msg, cfg.describe(tree)), cfg.to_json(tree)),
            }
        },
        cap,
    );
    match stats {
        Ok(stats) => (out, stats.capped),
        Err(msg) => {
            ctx.violation("explorer-divergence", &msg, json!({"tree": tree.to_replay(), "method": method_name(method), "params": spec.to_json(), "iters": iters}));
            (out, true)
        }
    }
}

fn specs(ctx: &Ctx) -> Vec<ParamSpec> {
    if ctx.thorough() {
        vec![ParamSpec::Preset(0), ParamSpec::Preset(3), ParamSpec::Preset(2), ParamSpec::Preset(1)]
    } else {
        vec![ParamSpec::Preset(0), ParamSpec::Preset(3)]
    }
}

fn budgets(method: RefMethod, thorough: bool) -> &'static [u64] {
    match (method, thorough) {
        (RefMethod::Sampled, false) => &[2, 3],
        (RefMethod::Sampled, true) => &[1, 2, 3, 4],
        (_, false) => &[1, 2],
        (_, true) => &[1, 2, 3],
    }
}

fn layer_decomposition(ctx: &Ctx, totals: &mut LoomTotals) {
    // (the full M = 4 universe x histories x targets does not finish in an hour; the thorough tier
    // keeps M = 3 with more presets, budgets and a larger history cap, plus the binary M = 4 universe)
    let bounds = Bounds { max_internal: 3, max_arity: 3, max_leaves: 5, chance_infosets: true, degenerate: true };
    let all = skeletons(&bounds);
    universe_summary(ctx, &bounds, all.len());
    let mut games: Vec<(String, Tree)> = all.iter().enumerate().map(|(i, s)| (format!("u{}", i), fill_distinct(s, i))).filter(|(_, tr)| super::has_decision(tr)).collect();
    if ctx.thorough() {
        let deeper = Bounds { max_internal: 4, max_arity: 2, max_leaves: 5, chance_infosets: false, degenerate: false };
        games.extend(skeletons(&deeper).iter().enumerate().filter(|(_, s)| s.num_internal() == 4 && super::has_decision(s)).map(|(i, s)| (format!("deep{}", i), fill_distinct(s, i))));
    }
    games.extend(families().into_iter().filter(|(n, _)| n != "kuhn"));
    games.extend(collision_games());
    for (k, depths) in [(2usize, 2..=4usize), (3, 2..=3)] {
        for d in depths {
            games.push((format!("kary_{}_{}", k, d), kary_alternating(k, d)));
        }
    }
    let targets: Vec<usize> = (1..=12).collect();
    let specs = specs(ctx);
    let cap = if ctx.thorough() { 256 } else { 48 };
    ctx.set("layer1_decomposition", json!({"games": games.len(), "methods": ["sampled", "external"], "budgets_sampled": budgets(RefMethod::Sampled, ctx.thorough()), "budgets_external": budgets(RefMethod::External, ctx.thorough()), "task_targets": "1..=12", "presets": specs.iter().map(|s| s.to_json()).collect::<Vec<_>>(), "history_cap_per_configuration": cap}));
    let lb = LoomBounds { pb3: None, pb4: None, max_permutations: 1, max_seconds: 60 };
    let shared = std::sync::Mutex::new(LoomTotals::default());
    // per game: enumerate its histories, hand them to one loom worker, judge, drop (nothing is kept)
    par_for_each(&games, 16, |gi, (_, tree)| {
        if ctx.stopped() {
            return;
        }
        let mut out = Vec::new();
        let game = match build(tree) {
            Ok(g) => g,
            Err(_) => return,
        };
        let al = match align(tree, &game) {
            Ok(al) => al,
            Err(_) => return,
        };
        for method in SAMPLED {
            for spec in &specs {
                for &iters in budgets(method, ctx.thorough()) {
                    // threshold 0 (never reached: the whole budget is used) and, at the largest
                    // budget on every fourth game, +inf (reached after the first iteration whatever the
                    // bounds are: the early exit itself must not depend on the decomposition)
                    let last = budgets(method, ctx.thorough()).last() == Some(&iters);
                    for max_reg in if last && (gi % 4 == 1 || tree.num_internal() > 4) { vec![0.0, f64::INFINITY] } else { vec![0.0] } {
                        let (hist, capped) = histories(ctx, tree, &game, &al, method, *spec, iters, max_reg, cap);
                        ctx.count(if capped { "history_enumerations_capped" } else { "history_enumerations_completed" }, 1);
                        ctx.count("histories", hist.len() as u64);
                        if max_reg > 0.0 {
                            ctx.count("histories_with_an_early_exit", hist.len() as u64);
                        }
                        for (cfg, seq) in hist {
                            out.push(loom_case(0, tree, &cfg, &seq, 2, &targets, false, &lb));
                            // thresholds that this very history passes in mid-run: up to two values
                            // strictly between consecutive bounds of its prefix runs (every eighth
                            // game and the larger ones)
                            if last && max_reg == 0.0 && iters >= 2 && (gi % 8 == 0 || tree.num_internal() > 4) {
                                let mut totals = Vec::new();
                                for t in 1..=iters {
                                    match sequential(tree, &game, &al, &Config { iters: t, ..cfg.clone() }) {
                                        Ok(run) => totals.push(f64::max(run.out.bounds[0], run.out.bounds[1])),
                                        Err(_) => {
                                            totals.clear();
                                            break;
                                        }
                                    }
                                }
                                let mut mids = Vec::new();
                                for pair in totals.windows(2) {
                                    let (hi, lo) = (f64::max(pair[0], pair[1]), f64::min(pair[0], pair[1]));
                                    if hi.is_finite() && hi - lo > 1e-3 * f64::max(1.0, hi) {
                                        mids.push((hi + lo) / 2.0);
                                    }
                                }
                                mids.truncate(2);
                                for r in mids {
                                    let stopped = Config { max_reg: r, ..cfg.clone() };
                                    if let Ok(run) = sequential(tree, &game, &al, &stopped) {
                                        out.push(loom_case(0, tree, &stopped, &run, 2, &targets, false, &lb));
                                        ctx.count("histories_with_a_threshold_passed_in_mid-run", 1);
                                    }
                                }
                            }
                        }
                    }
                }
            }
        }
        let results = run_loom(&out, 1);
        let mut local = LoomTotals::default();
        for (case, res) in out.iter().zip(results.iter()) {
            judge_loom(ctx, case, res, &mut local);
        }
        if gi % 1801 == 7 {
            if let Some(case) = out.last() {
                ctx.sample("layer 1a: pinned history x 12 task targets", json!({"tree": tree.show(), "method": case["method"], "preset": case["spec"], "iters": case["iters"], "decisions": case["script"]}));
            }
        }
        shared.lock().unwrap().merge(&local);
    });
    totals.merge(&shared.into_inner().unwrap());
}

fn layer_real_pool(ctx: &Ctx) {
    let mut games: Vec<(String, Tree)> = families();
    games.extend(collision_games());
    for (k, depths) in [(2usize, 3..=8usize), (3, 2..=5), (4, 2..=4)] {
        for d in depths {
            games.push((format!("kary_{}_{}", k, d), kary_alternating(k, d)));
        }
    }
    let specs = specs(ctx);
    let budgets: &[u64] = if ctx.thorough() { &[1, 2, 3, 5] } else { &[1, 3] };
    let threads: &[usize] = if ctx.thorough() { &[2, 3, 4, 5, 6, 8, 12, 16] } else { &[2, 4, 7] };
    let seeds: u64 = if ctx.thorough() { 4 } else { 2 };
    ctx.set("layer1_real_pool", json!({"games": games.len(), "budgets": budgets, "public_thread_counts": threads, "hash_pinned_histories_per_configuration": seeds}));
    par_for_each(&games, 1, |gi, (name, tree)| {
        if ctx.stopped() {
            return;
        }
        let game = match build(tree) {
            Ok(g) => g,
            Err(_) => return,
        };
        let al = match align(tree, &game) {
            Ok(al) => al,
            Err(_) => return,
        };
        let big = tree.num_internal() > 100;
        for method in SAMPLED {
            for (si, spec) in specs.iter().enumerate() {
                for &iters in budgets {
                    if big && (si > 0 || iters > 3) {
                        continue;
                    }
                    for seed in 0..seeds {
                        let cfg = Config { method, spec: *spec, iters, max_reg: 0.0, script: BTreeMap::new(), fallback: Fallback::Hash(crate::explore::mix(crate::explore::mix(ctx.seed) ^ (gi as u64) << 8 ^ seed)) };
                        let seq = match sequential(tree, &game, &al, &cfg) {
                            Ok(seq) => seq,
                            Err(msg) => {
                                ctx.violation("one-thread-run-failed", &format!("{} {}", msg, cfg.describe(tree)), cfg.to_json(tree));
                                continue;
                            }
                        };
                        for &th in threads {
                            check_real(ctx, tree, &game, &cfg, &seq, th, None);
                            ctx.case(iters + seq.log.len() as u64, true);
                            ctx.count("real_pool_runs", 1);
                        }
                        // small games never split at the public task target: explicit targets
                        // through the hook, repeated (the pool's schedule is not ours)
                        if tree.num_internal() <= 12 && si == 0 && seed == 0 {
                            for target in [3usize, 4, 5, 6] {
                                for _ in 0..(if ctx.thorough() { 10 } else { 4 }) {
                                    check_real(ctx, tree, &game, &cfg, &seq, 3, Some(target));
                                    ctx.case(iters + seq.log.len() as u64, true);
                                    ctx.count("real_pool_runs", 1);
                                }
                            }
                        }
                    }
                }
            }
        }
        if name == "kary_2_6" {
            ctx.sample("layer 1b: real pool, public entry point, hash-pinned history", json!({"name": name, "threads": threads, "budgets": budgets}));
        }
    });
}

fn layer_two(ctx: &Ctx, totals: &mut LoomTotals) {
    let bounds = if ctx.thorough() {
        Bounds { max_internal: 3, max_arity: 3, max_leaves: 5, chance_infosets: true, degenerate: false }
    } else {
        Bounds { max_internal: 2, max_arity: 3, max_leaves: 5, chance_infosets: true, degenerate: false }
    };
    let skels = skeletons(&bounds);
    let mut games: Vec<(String, Tree)> = skels.iter().enumerate().map(|(i, s)| (format!("u{}", i), fill_distinct(s, i))).filter(|(_, tr)| super::has_decision(tr) && tr.num_internal() >= 2).collect();
    let small = games.len();
    games.extend(collision_games());
    let targets: Vec<usize> = if ctx.thorough() { (2..=8).collect() } else { (2..=6).collect() };
    let lb = if ctx.thorough() {
        LoomBounds { pb3: Some(3), pb4: Some(2), max_permutations: 150_000, max_seconds: 120 }
    } else {
        LoomBounds { pb3: Some(2), pb4: Some(1), max_permutations: 30_000, max_seconds: 40 }
    };
    let specs = vec![ParamSpec::Preset(0), ParamSpec::Preset(3)];
    let cap = if ctx.thorough() { 64 } else { 16 };
    let cases: Vec<Value> = games
        .par_iter()
        .enumerate()
        .flat_map_iter(|(gi, (_, tree))| {
            let mut out = Vec::new();
            let game = match build(tree) {
                Ok(g) => g,
                Err(_) => return out,
            };
            let al = match align(tree, &game) {
                Ok(al) => al,
                Err(_) => return out,
            };
            for method in SAMPLED {
                for spec in &specs {
                    // the universe part: vanilla only
                    if gi < small && *spec != ParamSpec::Preset(0) {
                        continue;
                    }
                    let iters_list: &[u64] = match (method, ctx.thorough()) {
                        (RefMethod::Sampled, false) => &[2],
                        (RefMethod::Sampled, true) => &[2, 3],
                        (_, false) => &[1],
                        (_, true) => &[1, 2],
                    };
                    for &iters in iters_list {
                        let (hist, _) = histories(ctx, tree, &game, &al, method, *spec, iters, 0.0, cap);
                        for (cfg, seq) in hist {
                            for target in &targets {
                                out.push(loom_case(0, tree, &cfg, &seq, 2, &[*target], true, &lb));
                            }
                        }
                    }
                }
            }
            out
        })
        .collect();
    ctx.set("layer2_schedules", json!({"games": games.len(), "of_which_universe": small, "task_targets": targets, "history_cap_per_configuration": cap, "preemption_bound_3_tasks": lb.pb3, "preemption_bound_4_tasks": lb.pb4, "two_tasks": "unbounded DPOR"}));
    let results = run_loom(&cases, 16);
    let mut sampled = 0;
    for (case, res) in cases.iter().zip(results.iter()) {
        judge_loom(ctx, case, res, totals);
        if let crate::multi::LoomResult::Done(Value::Array(vals)) = res {
            let val = &vals[0];
            if val["max_concurrent_tasks"].as_u64().unwrap_or(0) >= 2 && sampled < 3 && val["executions"].as_u64().unwrap_or(0) > 10 {
                sampled += 1;
                ctx.sample("layer 2: loom case (pinned history x all schedules)", json!({"tree": Tree::from_replay(&case["tree"]).show(), "method": case["method"], "preset": case["spec"], "iters": case["iters"], "decisions": case["script"], "result": val}));
            }
        }
    }
}

pub fn run(ctx: &Ctx) -> i32 {
    let t0 = std::time::Instant::now();
    let mut walls = serde_json::Map::new();
    let mut capped = 0u64;
    layer_real_pool(ctx);
    walls.insert("real_pool".into(), json!(t0.elapsed().as_secs_f64()));
    if loom_available() {
        let mut dec = LoomTotals::default();
        let t1 = std::time::Instant::now();
        layer_decomposition(ctx, &mut dec);
        walls.insert("decomposition".into(), json!(t1.elapsed().as_secs_f64()));
        let t2 = std::time::Instant::now();
        ctx.set("layer1_decomposition_result", json!({"cases_(game,method,preset,budget,history,target)": dec.cases, "with_a_split_frontier": dec.cases_with_concurrency, "largest_frontier": dec.max_tasks}));
        let mut totals = LoomTotals::default();
        layer_two(ctx, &mut totals);
        report_loom(ctx, &totals);
        capped = totals.capped;
        walls.insert("schedules".into(), json!(t2.elapsed().as_secs_f64()));
    } else {
        ctx.set("loom", json!("NOT RUN: the loom worker is not built (/verif/target/loom/release/vloom missing or VERIF_NO_LOOM set); decompositions and schedules were not explored in this run"));
        println!("NOTE: loom layers skipped (worker not built)");
    }
    println!("  wall seconds by layer: {}", Value::Object(walls.clone()));
    ctx.set("wall_s_by_layer", Value::Object(walls));
    ctx.assume("draws are pinned by key (kind, infoset, pass): the multi-threaded run must ask for exactly the keys of the one-thread run; which worker arrives first at a shared infoset is explored by loom, the value it draws is pinned");
    ctx.assume("layer 1b uses the real rayon pool and sees whatever schedule the pool produced; layer 2 (loom): <= 2 concurrent tasks unbounded, 3 / 4 tasks preemption-bounded; par_iter_mut over exclusive items runs sequentially in the shim");
    ctx.assume("history enumerations beyond the stated cap per configuration are cut (counted as capped); runs where the specification reports a tie / near-zero regret sum are counted, not judged");
    ctx.finish(
        "every draw history (up to the cap) of every valid game within the bounds + families x {sampled, external} x presets x budgets, each under every task target 1..=12 (decomposition) and, for the small universe and the collision games, under every schedule (loom); plus real-pool runs through the public entry point; states = decomposition cases + real-pool runs + loom schedules; non-trivial = the frontier is split into >= 2 tasks",
        // exhaustive unless a loom case hit its cap or a history enumeration was cut (both counted)
        capped == 0 && ctx.counter("history_enumerations_capped") == 0,
        "E-CHOICE x E-SCHED: the one-thread solver enumerates the draw histories; each history pins the real multi-threaded solver, which is then explored over task decompositions and (loom) over thread interleavings and compared with the one-thread run",
    )
}

pub fn replay(ctx: &Ctx, val: &Value) -> i32 {
    crate::multi::replay_real(ctx, val)
}
