//! C18 — truncation keeps a valid profile and only removes small actions.
//! Enumerated: every valid skeleton x every grid profile x every threshold of the derived set
//! {-1, 0} u {prev(p), p, next(p), midpoints between consecutive distinct p} u {1, 2, 1e300}.
use super::{has_decision, profiles, universe_summary};
use crate::framework::{close, guarded, Ctx};
use crate::refmodel::Profile;
use crate::subject::{build, inject, profile_from_json, profile_json, read_profile};
use crate::tree::Tree;
use crate::universe::{families, fill_distinct, skeletons, Bounds};
use rayon::prelude::*;
use serde_json::json;

pub fn next_up(x: f64) -> f64 {
    if x.is_nan() || x == f64::INFINITY {
        x
    } else if x == 0.0 {
        f64::from_bits(1)
    } else if x > 0.0 {
        f64::from_bits(x.to_bits() + 1)
    } else {
        f64::from_bits(x.to_bits() - 1)
    }
}

pub fn next_down(x: f64) -> f64 {
    -next_up(-x)
}

pub fn thresholds(prof: &Profile) -> Vec<f64> {
    let mut ps: Vec<f64> = prof.iter().flat_map(|m| m.values()).flat_map(|v| v.iter().copied()).collect();
    ps.sort_by(|a, b| a.partial_cmp(b).unwrap());
    ps.dedup();
    let mut res = vec![-1.0, 0.0, 1.0, 2.0, 1e300];
    for (i, p) in ps.iter().enumerate() {
        res.push(*p);
        res.push(next_up(*p));
        res.push(next_down(*p));
        if i + 1 < ps.len() {
            res.push((p + ps[i + 1]) / 2.0);
        }
    }
    res.sort_by(|a, b| a.partial_cmp(b).unwrap());
    res.dedup();
    res
}

/// check one (game, profile, threshold); returns the class of the first failed clause
pub fn check_case(ctx: &Ctx, tree: &Tree, prof: &Profile, thresh: f64) -> bool {
    let replay = json!({"tree": tree.to_replay(), "profile": profile_json(prof), "threshold": thresh});
    let res = guarded(|| -> Result<(Profile, Profile, Profile), String> {
        let game = build(tree).map_err(|e| format!("valid game rejected: {:?}", e))?;
        let mut strat = inject(&game, tree, prof).map_err(|e| format!("valid profile rejected: {:?}", e))?;
        // the profile as the library holds it (importing normalises: a non-dyadic profile can move
        // by an ulp); every clause below is about THIS profile
        let stored = read_profile(tree, &strat)?;
        strat.truncate(thresh);
        let once = read_profile(tree, &strat)?;
        strat.truncate(thresh);
        let twice = read_profile(tree, &strat)?;
        Ok((stored, once, twice))
    });
    let (stored, once, twice) = match res {
        Err(msg) => {
            ctx.violation("panic", &msg, replay);
            return false;
        }
        Ok(Err(msg)) => {
            ctx.violation("named-view-broken", &format!("{} after truncate({}) on {}", msg, thresh, tree.show()), replay);
            return false;
        }
        Ok(Ok(triple)) => triple,
    };
    let prof = &stored;
    let mut ok = true;
    let min_pos = prof
        .iter()
        .flat_map(|m| m.values())
        .flat_map(|v| v.iter().copied())
        .filter(|p| *p > 0.0)
        .fold(f64::INFINITY, f64::min);
    for pl in 0..2 {
        for (info, before) in &prof[pl] {
            if before.len() < 2 {
                continue;
            }
            let after = &once[pl][info];
            let again = &twice[pl][info];
            let mut fail = |class: &str, what: String| {
                ctx.violation(class, &format!("{}: infoset {} {:?} -> {:?} at threshold {} on {}", what, info, before, after, thresh, tree.show()), replay.clone());
                ok = false;
            };
            let sum: f64 = after.iter().sum();
            if after.iter().any(|p| !(*p >= 0.0) || !p.is_finite()) || !close(sum, 1.0, 1e-9) {
                let survivors = before.iter().filter(|p| **p > thresh).count();
                fail(
                    if survivors == 0 { "no-survivor-not-a-distribution" } else { "not-a-distribution" },
                    format!("result is not a probability distribution (sum {})", sum),
                );
                continue;
            }
            let total: f64 = before.iter().filter(|p| **p > thresh).sum();
            if before.iter().any(|p| *p > thresh) {
                for (b, a) in before.iter().zip(after.iter()) {
                    let want = if *b > thresh { b / total } else { 0.0 };
                    if !close(*a, want, 1e-12) {
                        fail("wrong-rescale", format!("expected {} got {}", want, a));
                        break;
                    }
                }
            }
            if thresh < min_pos && !before.iter().zip(after.iter()).all(|(b, a)| close(*a, *b, 1e-12)) {
                fail("changed-below-all", "threshold below every positive probability changed the profile".to_string());
            }
            if !after.iter().zip(again.iter()).all(|(a, b)| close(*a, *b, 1e-12)) {
                fail("not-idempotent", format!("truncating twice gives {:?}", again));
            }
        }
    }
    ok
}

/// the statement, applied to one profile: survivors are the actions above the threshold, rescaled
/// proportionally; an infoset without survivors (or from which nothing is removed) stays as it is
pub fn ref_truncate(prof: &Profile, thresh: f64) -> Profile {
    let mut res = prof.clone();
    for pl in 0..2 {
        for probs in res[pl].values_mut() {
            let total: f64 = probs.iter().filter(|p| **p > thresh).sum();
            let removes = probs.iter().any(|p| *p > 0.0 && *p <= thresh);
            if total > 0.0 && removes {
                for p in probs.iter_mut() {
                    *p = if *p > thresh { *p / total } else { 0.0 };
                }
            }
        }
    }
    res
}

/// Two truncations in a row on one object (and on a clone taken in between): each must act on the
/// profile the object holds at that moment, whatever was done to it before
pub fn check_sequence(ctx: &Ctx, tree: &Tree, prof: &Profile, first: f64, second: f64) -> bool {
    let replay = json!({"tree": tree.to_replay(), "profile": profile_json(prof), "threshold": first, "second": second});
    let res = guarded(|| -> Result<(Profile, Profile, Profile), String> {
        let game = build(tree).map_err(|e| format!("{:?}", e))?;
        let mut strat = inject(&game, tree, prof).map_err(|e| format!("{:?}", e))?;
        let stored = read_profile(tree, &strat)?;
        strat.truncate(first);
        let mut copy = strat.clone();
        strat.truncate(second);
        copy.truncate(second);
        Ok((stored, read_profile(tree, &strat)?, read_profile(tree, &copy)?))
    });
    match res {
        Err(msg) | Ok(Err(msg)) => {
            ctx.violation("panic", &msg, replay);
            false
        }
        Ok(Ok((stored, got, got_copy))) => {
            let want = ref_truncate(&ref_truncate(&stored, first), second);
            let same = |a: &Profile, b: &Profile| (0..2).all(|pl| a[pl].iter().all(|(k, v)| b[pl].get(k).map(|w| v.iter().zip(w.iter()).all(|(x, y)| close(*x, *y, 1e-12))).unwrap_or(false)));
            if !same(&want, &got) || !same(&want, &got_copy) {
                ctx.violation("sequence-differs", &format!("truncate({}) then truncate({}) gives {:?} (on a clone taken in between: {:?}), the statement applied twice gives {:?}, from {:?} on {}", first, second, got, got_copy, want, stored, tree.show()), replay);
                return false;
            }
            true
        }
    }
}

/// the profile as the library holds it after import
pub fn stored_profile(tree: &Tree, prof: &Profile) -> Option<Profile> {
    let game = build(tree).ok()?;
    let strat = inject(&game, tree, prof).ok()?;
    read_profile(tree, &strat).ok()
}

pub fn run(ctx: &Ctx) -> i32 {
    let bounds = if ctx.thorough() {
        Bounds { max_internal: 4, max_arity: 3, max_leaves: 7, chance_infosets: false, degenerate: true }
    } else {
        Bounds { max_internal: 3, max_arity: 3, max_leaves: 7, chance_infosets: false, degenerate: true }
    };
    let skels = skeletons(&bounds);
    universe_summary(ctx, &bounds, skels.len());
    let mut games: Vec<Tree> = skels.iter().map(|s| fill_distinct(s, 0)).collect();
    games.extend(families().into_iter().map(|(_, t)| t));
    games.par_iter().enumerate().for_each(|(gi, tree)| {
        if ctx.stopped() || !has_decision(tree) {
            return;
        }
        let (profs, _) = profiles(tree, ctx.thorough(), 400);
        for (pi, prof) in profs.iter().enumerate() {
            for thresh in thresholds(prof) {
                check_case(ctx, tree, prof, thresh);
                let interior = prof.iter().flat_map(|m| m.values()).any(|v| v.iter().any(|p| *p > 0.0 && *p < 1.0));
                ctx.case(1, interior);
                if gi % 997 == 0 && pi == profs.len() / 2 && thresh == 0.25 {
                    ctx.sample("game+profile+threshold", json!({"tree": tree.show(), "profile": profile_json(prof), "threshold": thresh}));
                }
            }
        }
    });
    // two truncations in a row with different thresholds (in both orders), on every game with at
    // least two decision infosets of the small universe and the families
    let seq_games: Vec<&Tree> = games.iter().filter(|t| crate::refmodel::game_dims(t).1 >= 2).collect();
    seq_games.par_iter().for_each(|tree| {
        let (profs, _) = profiles(tree, false, 60);
        for prof in &profs {
            for (first, second) in [(0.6, 0.25), (0.5, 0.1), (0.25, 0.6), (0.75, 0.5), (1.0, 0.25)] {
                check_sequence(ctx, tree, prof, first, second);
                ctx.case(2, true);
                ctx.count("two_call_sequences", 1);
            }
        }
    });
    // the Strategies object as a state machine: every state reachable by <= 3 operations
    super::explore_api(ctx, "state-machine", &|tree, _, obj, _, _| {
        let held = read_profile(tree, obj)?;
        for probs in held.iter().flat_map(|m| m.values()) {
            let sum: f64 = probs.iter().sum();
            if probs.iter().any(|p| !(*p >= 0.0) || !p.is_finite()) || !close(sum, 1.0, 1e-9) {
                return Err(format!("an infoset holds {:?} (sum {})", probs, sum));
            }
        }
        Ok(())
    });
    // wide infosets with non-dyadic probabilities: uniform over k actions (k = 2..24; the
    // left-to-right sum of k copies of 1/k is just below or above 1 for many k), a linear ramp and a
    // geometric profile, each at every threshold of the derived set
    let wide: Vec<usize> = (2..=24).collect();
    wide.par_iter().for_each(|&k| {
        let tree = Tree::P(0, "w".to_string(), (0..k).map(|i| (format!("a{:02}", i), Tree::T(i as f64))).collect());
        let ramp: f64 = (1..=k).map(|i| i as f64).sum();
        let geo: f64 = (0..k).map(|i| 0.5f64.powi(i as i32)).sum();
        let shapes: Vec<Vec<f64>> = vec![vec![1.0 / k as f64; k], (1..=k).map(|i| i as f64 / ramp).collect(), (0..k).map(|i| 0.5f64.powi(i as i32) / geo).collect()];
        for probs in shapes {
            let prof: Profile = [[("w".to_string(), probs)].into_iter().collect(), Default::default()];
            let stored = match stored_profile(&tree, &prof) {
                Some(p) => p,
                None => continue,
            };
            for thresh in thresholds(&stored) {
                check_case(ctx, &tree, &prof, thresh);
                ctx.case(1, true);
                ctx.count("wide_infoset_cases", 1);
            }
        }
    });
    ctx.finish(
        "every valid skeleton (one payoff fill; payoffs are irrelevant to truncate) and every curated family game x every grid profile x every threshold of the derived set (below, at, just above, between every distinct probability; -1, 0, 1, 2, 1e300), plus one infoset of 2..24 actions with uniform / ramp / geometric probabilities; non-trivial = the profile has an interior probability",
        true,
        "E-INPUT: Strategies::truncate applied to every enumerated (game, profile, threshold), read back through as_named, compared clause by clause with the statement",
    )
}

pub fn replay(ctx: &Ctx, val: &serde_json::Value) -> i32 {
    let tree = Tree::from_replay(&val["tree"]);
    let prof = profile_from_json(&val["profile"]);
    if val["api"].as_bool() == Some(true) {
        println!("state-machine case: operations {} from the given profile; rerun the check to re-explore", val["ops"]);
        let game = build(&tree).expect("valid game");
        let ops = super::api::ops_from_json(&val["ops"]);
        let res = guarded(|| super::api::replay(&game, &tree, &prof, &ops).and_then(|s| read_profile(&tree, &s)));
        println!("object after the operations: {:?}", res);
        return 1;
    }
    if let Some(second) = val["second"].as_f64() {
        let ok = check_sequence(ctx, &tree, &prof, val["threshold"].as_f64().unwrap(), second);
        println!("replay {}", if ok { "passes" } else { "fails" });
        return if ok { 0 } else { 1 };
    }
    let ok = check_case(ctx, &tree, &prof, val["threshold"].as_f64().unwrap());
    println!("replay {}", if ok { "passes" } else { "fails" });
    if ok { 0 } else { 1 }
}
