//! C12 — results do not depend on how the game is presented.
//! "Programs" are alternative presentations of one game. Enumerated: every valid game x every
//! single-site and the all-sites application of: chance rescaling (x2, x1/2 at one node; x3 on a
//! whole chance infoset), insertion of a single-outcome chance node and of a single-action decision
//! node of either player (fresh label, or one reused single-action infoset) above any node, removal
//! of every single-child node, injective renaming of infosets / actions / chance infosets (one
//! renaming reverses the lexicographic order), payoffs x c (2, 1/2, 3, 2^-70, 2^40), payoffs + k
//! (1, -2.5), and the exchange of the players' roles with negated payoffs. For each presentation:
//! evaluation of every profile of the coarse grid, and the deterministic solver for presets x
//! budgets {1,2,5,20}.
//! Oracle: the equalities of the statement, mapped back to the original names / roles / scale:
//! bitwise where the same arithmetic is performed, 1e-9 relative otherwise (solver comparisons in
//! that regime are not judged where the specification reports a tie / near-zero regret sum).
use super::c08::{ParamSpec, PRESET_NAMES};
use super::{profiles, universe_summary};
use crate::explore::{Fallback, Pinned};
use crate::framework::{close, guarded, Ctx};
use crate::refcfr::{ref_cfr, RefMethod};
use crate::refmodel::{infosets, Profile};
use crate::runner::run_impl;
use crate::subject::{build, inject, profile_json};
use crate::tree::Tree;
use crate::universe::{families, fill_distinct, skeletons, Bounds};
use cfr::PlayerNum;
use rayon::prelude::*;
use serde_json::{json, Value};
use std::collections::BTreeMap;

#[derive(Debug, Clone, PartialEq)]
pub enum Xform {
    /// multiply the weights of the chance node at preorder index `site` (None: every chance node)
    ChanceScale(Option<usize>, f64),
    /// multiply the weights of every node of every chance infoset by 3 (not a power of two)
    ChanceScaleAll3,
    /// single-outcome chance node above the node at `site` (None: above every node); label: 0 =
    /// none, 1 = a fresh chance infoset per inserted node, 2 = one chance infoset for all of them
    InsertChance(Option<usize>, f64, u8),
    /// single-action decision node of `player` above `site`; `reuse`: all inserted nodes of the
    /// player share one infoset label
    InsertSingle(Option<usize>, usize, bool),
    /// remove every single-child node
    Collapse,
    /// 0: prefix every name; 1: reverse the lexicographic order of all names
    Rename(u8),
    PayScale(f64),
    PayShift(f64),
    Swap,
}

impl Xform {
    pub fn to_json(&self) -> Value {
        json!(format!("{:?}", self))
    }

    /// the same arithmetic is performed on the presentation (results must agree to the last bit)
    fn exact(&self) -> bool {
        match self {
            Xform::ChanceScale(_, c) | Xform::PayScale(c) => c.log2().fract() == 0.0,
            Xform::InsertChance(..) | Xform::InsertSingle(..) | Xform::Collapse | Xform::Rename(_) => true,
            Xform::ChanceScaleAll3 | Xform::PayShift(_) | Xform::Swap => false,
        }
    }
}

fn rename_map(tree: &Tree, mode: u8) -> BTreeMap<String, String> {
    let mut names = std::collections::BTreeSet::new();
    tree.walk(&mut |n| match n {
        Tree::C(Some(info), _) => {
            names.insert(info.clone());
        }
        Tree::P(_, info, acts) => {
            names.insert(info.clone());
            for (a, _) in acts {
                names.insert(a.clone());
            }
        }
        _ => {}
    });
    let sorted: Vec<String> = names.into_iter().collect();
    let count = sorted.len();
    sorted
        .iter()
        .enumerate()
        .map(|(i, name)| (name.clone(), if mode == 0 { format!("renamed {} \u{e9}", name) } else { format!("n{:03}", count - 1 - i) }))
        .collect()
}

fn rec(node: &Tree, xf: &Xform, index: &mut usize, names: &BTreeMap<String, String>) -> Tree {
    let here = *index;
    *index += 1;
    let hit = |site: &Option<usize>| site.map(|s| s == here).unwrap_or(true);
    let mut res = match node {
        Tree::T(pay) => Tree::T(match xf {
            Xform::PayScale(c) => pay * c,
            Xform::PayShift(k) => pay + k,
            Xform::Swap => -pay,
            _ => *pay,
        }),
        Tree::C(info, outs) => {
            let factor = match xf {
                Xform::ChanceScale(site, c) if hit(site) => *c,
                Xform::ChanceScaleAll3 => 3.0,
                _ => 1.0,
            };
            let info = match xf {
                Xform::Rename(_) => info.as_ref().map(|i| names[i].clone()),
                _ => info.clone(),
            };
            Tree::C(info, outs.iter().map(|(w, next)| (w * factor, rec(next, xf, index, names))).collect())
        }
        Tree::P(num, info, acts) => {
            let (num, info) = match xf {
                Xform::Swap => (1 - num, info.clone()),
                Xform::Rename(_) => (*num, names[info].clone()),
                _ => (*num, info.clone()),
            };
            Tree::P(
                num,
                info,
                acts.iter()
                    .map(|(a, next)| (if let Xform::Rename(_) = xf { names[a].clone() } else { a.clone() }, rec(next, xf, index, names)))
                    .collect(),
            )
        }
    };
    match xf {
        Xform::InsertChance(site, w, label) if hit(site) => {
            let info = match label {
                0 => None,
                1 => Some(format!("inserted-chance-{}", here)),
                _ => Some("inserted-chance".to_string()),
            };
            res = Tree::C(info, vec![(*w, res)]);
        }
        Xform::InsertSingle(site, player, reuse) if hit(site) => {
            let label = if *reuse { format!("inserted-{}", player) } else { format!("inserted-{}-{}", player, here) };
            res = Tree::P(*player, label, vec![("only".to_string(), res)]);
        }
        Xform::Collapse => loop {
            let next = match &res {
                Tree::C(_, outs) if outs.len() == 1 => outs[0].1.clone(),
                Tree::P(_, _, acts) if acts.len() == 1 => acts[0].1.clone(),
                _ => break,
            };
            res = next;
        },
        _ => {}
    }
    res
}

pub fn apply(tree: &Tree, xf: &Xform) -> (Tree, BTreeMap<String, String>) {
    let names = match xf {
        Xform::Rename(mode) => rename_map(tree, *mode),
        _ => BTreeMap::new(),
    };
    (rec(tree, xf, &mut 0, &names), names)
}

/// a profile of the original game in the presentation's coordinates
fn profile_to(prof: &Profile, xf: &Xform, names: &BTreeMap<String, String>) -> Profile {
    match xf {
        Xform::Swap => [prof[1].clone(), prof[0].clone()],
        Xform::Rename(_) => [0, 1].map(|pl| prof[pl].iter().map(|(k, v)| (names[k].clone(), v.clone())).collect()),
        _ => prof.clone(),
    }
}

/// a profile of the presentation back in the original coordinates (multi-action infosets only)
fn profile_back(prof: &Profile, xf: &Xform, names: &BTreeMap<String, String>) -> Profile {
    match xf {
        Xform::Swap => [prof[1].clone(), prof[0].clone()],
        Xform::Rename(_) => {
            let inverse: BTreeMap<&String, &String> = names.iter().map(|(k, v)| (v, k)).collect();
            [0, 1].map(|pl| prof[pl].iter().map(|(k, v)| ((*inverse[k]).clone(), v.clone())).collect())
        }
        _ => prof.clone(),
    }
}

#[derive(Debug, Clone, Copy)]
struct Numbers {
    util: f64,
    /// regrets (evaluation) or bounds (solve), player one / two
    pair: [f64; 2],
}

/// what the presentation's numbers must be, given the original's
fn expect(orig: Numbers, xf: &Xform) -> Numbers {
    match xf {
        Xform::PayScale(c) => Numbers { util: orig.util * c, pair: [orig.pair[0] * c, orig.pair[1] * c] },
        Xform::PayShift(k) => Numbers { util: orig.util + k, pair: orig.pair },
        Xform::Swap => Numbers { util: -orig.util, pair: [orig.pair[1], orig.pair[0]] },
        _ => orig,
    }
}

fn same(a: f64, b: f64, exact: bool, scale: f64) -> bool {
    if exact {
        a.to_bits() == b.to_bits() || a == b
    } else {
        close(a, b, 1e-9) || (a - b).abs() <= 1e-9 * scale
    }
}

fn evaluate(tree: &Tree, prof: &Profile) -> Result<Numbers, String> {
    let game = build(tree).map_err(|e| format!("rejected: {:?}", e))?;
    let strat = inject(&game, tree, prof).map_err(|e| format!("profile rejected: {:?}", e))?;
    let info = strat.get_info();
    Ok(Numbers { util: info.player_utility(PlayerNum::One), pair: [info.player_regret(PlayerNum::One), info.player_regret(PlayerNum::Two)] })
}

fn solve(tree: &Tree, preset: usize, iters: u64) -> Result<(Profile, Numbers), String> {
    let game = build(tree).map_err(|e| format!("rejected: {:?}", e))?;
    let decider = Pinned::new(BTreeMap::new(), Fallback::Free);
    let out = run_impl(tree, &game, RefMethod::Full, iters, 0.0, 1, None, ParamSpec::Preset(preset).implementation(), &decider)?;
    let info = crate::subject::inject(&game, tree, &out.avg).map_err(|e| format!("returned profile does not import: {:?}", e))?.get_info();
    Ok((out.avg, Numbers { util: info.player_utility(PlayerNum::One), pair: out.bounds }))
}

fn multi_only(tree: &Tree, prof: &Profile) -> Profile {
    let infos = infosets(tree);
    [0, 1].map(|pl| prof[pl].iter().filter(|(k, _)| infos[pl].iter().any(|d| &d.name == *k && d.actions.len() >= 2)).map(|(k, v)| (k.clone(), v.clone())).collect())
}

pub fn xforms(tree: &Tree) -> Vec<Xform> {
    let mut res = vec![Xform::Collapse, Xform::Rename(0), Xform::Rename(1), Xform::Swap, Xform::ChanceScaleAll3];
    for c in [2.0, 0.5, 3.0, 2f64.powi(-70), 2f64.powi(40)] {
        res.push(Xform::PayScale(c));
    }
    for k in [1.0, -2.5] {
        res.push(Xform::PayShift(k));
    }
    let mut sites: Vec<Option<usize>> = vec![None];
    let mut nodes = 0;
    tree.walk(&mut |_| nodes += 1);
    sites.extend((0..nodes).map(Some));
    let mut chance_sites = Vec::new();
    // chance nodes whose weights (and their sum, and three times each) are exact in binary
    let mut exact_sites = Vec::new();
    let mut index = 0;
    tree.walk(&mut |n| {
        if let Tree::C(_, outs) = n {
            chance_sites.push(index);
            if outs.iter().all(|(w, _)| (w * 1048576.0).fract() == 0.0 && w.abs() < 1073741824.0) {
                exact_sites.push(index);
            }
        }
        index += 1;
    });
    for site in &sites {
        res.push(Xform::InsertChance(*site, 1.0, 0));
        res.push(Xform::InsertChance(*site, 5.0, 0));
        res.push(Xform::InsertChance(*site, 2.0, 1));
        res.push(Xform::InsertChance(*site, 0.5, 2));
        for player in 0..2 {
            res.push(Xform::InsertSingle(*site, player, false));
            res.push(Xform::InsertSingle(*site, player, true));
        }
    }
    for c in [2.0, 0.5] {
        res.push(Xform::ChanceScale(None, c));
        for site in &chance_sites {
            // one node of a shared chance infoset rescaled by a power of two: the normalised
            // probabilities stay bitwise equal, so the game stays valid
            res.push(Xform::ChanceScale(Some(*site), c));
        }
    }
    // one node (possibly of a shared chance infoset) rescaled by 3: with exact weights a / s and
    // 3a / 3s are the same real number, so the correctly rounded quotients are the same double and
    // the game stays valid with the same probabilities
    for site in &exact_sites {
        for factor in [3.0, 7.0, 11.0] {
            res.push(Xform::ChanceScale(Some(*site), factor));
        }
    }
    res
}

pub fn check_game(ctx: &Ctx, tree: &Tree, only: Option<&Xform>) -> bool {
    let mut ok = true;
    let (d, _, _) = crate::refmodel::game_dims(tree);
    let (profs, _) = profiles(tree, false, 48);
    let presets: &[usize] = if ctx.thorough() { &[0, 1, 2, 3, 4] } else { &[0, 3] };
    let budgets: &[u64] = &[1, 2, 5, 20];
    // the original's numbers, once
    let base_eval: Vec<Result<Numbers, String>> = profs.iter().map(|p| evaluate(tree, p)).collect();
    let mut base_solve = Vec::new();
    for &preset in presets {
        for &iters in budgets {
            let flagged = ref_cfr(tree, RefMethod::Full, ParamSpec::Preset(preset).reference(), iters, &mut |_, _| None).map(|r| r.flags.any()).unwrap_or(false);
            base_solve.push((preset, iters, solve(tree, preset, iters), flagged));
        }
    }
    let all = xforms(tree);
    for xf in all.iter().filter(|x| only.map(|o| o == *x).unwrap_or(true)) {
        let replay = json!({"tree": tree.to_replay(), "xform": xf.to_json()});
        let (pres, names) = apply(tree, xf);
        let label = format!("{:?} of {} (presented as {})", xf, tree.show(), pres.show());
        if build(&pres).is_err() {
            ctx.violation("presentation-rejected", &format!("the presentation is rejected: {}", label), replay);
            ok = false;
            continue;
        }
        let scale = match xf {
            Xform::PayScale(c) => d * c,
            _ => d,
        };
        // evaluation of every grid profile
        for (prof, base) in profs.iter().zip(base_eval.iter()) {
            let base = match base {
                Ok(b) => *b,
                Err(_) => continue,
            };
            let got = guarded(|| evaluate(&pres, &profile_to(prof, xf, &names)));
            ctx.case(1, true);
            let want = expect(base, xf);
            match got {
                Ok(Ok(got)) => {
                    if !(same(got.util, want.util, xf.exact(), scale) && same(got.pair[0], want.pair[0], xf.exact(), scale) && same(got.pair[1], want.pair[1], xf.exact(), scale)) {
                        let mut rep = replay.clone();
                        rep["profile"] = profile_json(prof);
                        ctx.violation("evaluation-differs", &format!("utility / regrets {:?}, expected {:?} from the original's {:?}: {}", got, want, base, label), rep);
                        ok = false;
                        break;
                    }
                }
                Ok(Err(msg)) | Err(msg) => {
                    ctx.violation("evaluation-failed", &format!("{}: {}", msg, label), replay.clone());
                    ok = false;
                    break;
                }
            }
        }
        // the deterministic solver
        for (preset, iters, base, flagged) in &base_solve {
            let (base_prof, base_nums) = match base {
                Ok(b) => b,
                Err(_) => continue,
            };
            ctx.case(*iters, true);
            match guarded(|| solve(&pres, *preset, *iters)) {
                Ok(Ok((prof, nums))) => {
                    let back = multi_only(tree, &profile_back(&prof, xf, &names));
                    let want_prof = multi_only(tree, base_prof);
                    let want = expect(*base_nums, xf);
                    let exact = xf.exact();
                    let mut differs = None;
                    for pl in 0..2 {
                        for (name, probs) in &want_prof[pl] {
                            match back[pl].get(name) {
                                Some(got) if got.len() == probs.len() && got.iter().zip(probs.iter()).all(|(a, b)| same(*a, *b, exact, 1.0)) => {}
                                other => differs = Some(format!("player {} infoset {}: {:?}, the original gives {:?}", pl + 1, name, other, probs)),
                            }
                        }
                    }
                    if differs.is_none() && !(same(nums.pair[0], want.pair[0], exact, scale) && same(nums.pair[1], want.pair[1], exact, scale) && same(nums.util, want.util, exact, scale)) {
                        differs = Some(format!("bounds / utility {:?}, expected {:?}", nums, want));
                    }
                    if let Some(what) = differs {
                        if !exact && *flagged {
                            ctx.count("ill_conditioned_(tie_or_near_zero_regret_sum;_differs;_not_compared)", 1);
                        } else {
                            let mut rep = replay.clone();
                            rep["preset"] = json!(PRESET_NAMES[*preset]);
                            rep["iters"] = json!(iters);
                            ctx.violation("solve-differs", &format!("{} [{} T={}]: {}", what, PRESET_NAMES[*preset], iters, label), rep);
                            ok = false;
                            break;
                        }
                    }
                }
                Ok(Err(msg)) | Err(msg) => {
                    ctx.violation("solve-failed", &format!("{}: {}", msg, label), replay.clone());
                    ok = false;
                    break;
                }
            }
        }
    }
    ok
}

pub fn run(ctx: &Ctx) -> i32 {
    let bounds = if ctx.thorough() {
        Bounds { max_internal: 4, max_arity: 3, max_leaves: 5, chance_infosets: true, degenerate: true }
    } else {
        Bounds { max_internal: 3, max_arity: 3, max_leaves: 5, chance_infosets: true, degenerate: true }
    };
    let skels = skeletons(&bounds);
    universe_summary(ctx, &bounds, skels.len());
    let mut games: Vec<(String, Tree)> = skels.iter().enumerate().filter(|(_, s)| super::has_decision(s)).map(|(i, s)| (format!("u{}", i), fill_distinct(s, i))).collect();
    games.extend(families().into_iter().filter(|(n, _)| !n.starts_with("rare_chance_1e3") && !n.starts_with("rare_chance_1e4")));
    games.extend(super::c06::collision_games());
    // shared chance infosets whose weight sums are not powers of two (the universe's are, on purpose)
    {
        use crate::tree::{c, p, t};
        for (label, ws) in [("2_3", vec![2.0, 3.0]), ("1_2", vec![1.0, 2.0]), ("3_1_1", vec![3.0, 1.0, 1.0]), ("1_9", vec![1.0, 9.0])] {
            let node = |shift: f64| c(Some("k"), ws.iter().enumerate().map(|(i, w)| (*w, t(shift + i as f64))).collect());
            games.push((format!("shared_chance_{}", label), p(0, "r", vec![("a", node(-1.0)), ("b", p(1, "z", vec![("l", node(0.5)), ("r", t(0.25))]))])));
        }
    }
    ctx.set("games", json!(games.len()));
    let total_x = std::sync::atomic::AtomicU64::new(0);
    games.par_iter().enumerate().for_each(|(gi, (name, tree))| {
        if ctx.stopped() {
            return;
        }
        total_x.fetch_add(xforms(tree).len() as u64, std::sync::atomic::Ordering::Relaxed);
        check_game(ctx, tree, None);
        if gi % 1499 == 0 {
            ctx.sample("game and its presentations", json!({"name": name, "tree": tree.show(), "presentations": xforms(tree).iter().take(12).map(|x| format!("{:?} -> {}", x, apply(tree, x).0.show())).collect::<Vec<_>>()}));
        }
    });
    ctx.set("presentations", json!(total_x.load(std::sync::atomic::Ordering::Relaxed)));
    ctx.assume("parameter sets: the documented presets (a finite non-zero no_positive weight makes the fallback strategy scale dependent by definition, so arbitrary tuples are outside the scaling clause)");
    ctx.assume("a non-power-of-two rescaling (x3) is applied to whole chance infosets only: rescaling one node of a shared infoset by 3 can change the last bit of its normalised probabilities, which the exact comparison of the construction contract would reject");
    ctx.finish(
        "every valid game (see assumptions) x every single-site and all-sites presentation change of the stated kinds x (every profile of the coarse grid for evaluation + presets x budgets {1,2,5,20} for the deterministic solver); states = (game, presentation, profile | solver configuration)",
        true,
        "each presentation is a different program for the same game: it is built, evaluated and solved by the real library, and the results are mapped back and compared with those of the original presentation",
    )
}

pub fn replay(ctx: &Ctx, val: &Value) -> i32 {
    let tree = Tree::from_replay(&val["tree"]);
    let want = val["xform"].as_str().unwrap_or("");
    let xf = xforms(&tree).into_iter().find(|x| format!("{:?}", x) == want);
    let ok = check_game(ctx, &tree, xf.as_ref());
    println!("replay {}", if ok { "passes" } else { "fails" });
    if ok {
        0
    } else {
        1
    }
}
