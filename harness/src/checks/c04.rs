//! C04 — the chance-sampled and external-sampled solvers converge on every game.
//!
//! What bounded exhaustive exploration decides here:
//! (a) ALL draw histories (E-CHOICE) of {Sampled, External} x presets on every game with at most two
//!     decision infosets, for every budget T of a ladder up to the horizon at which the history
//!     count reaches the cap. Each history carries its exact probability, so for each (game, method,
//!     preset, T) the harness knows the exact distribution of the true regret of the returned
//!     profile: total mass (must be 1: the draws are a probability distribution), the mass above the
//!     envelope D N sqrt(A) / sqrt(T), and the exact expectation. Where the envelope says anything
//!     (it is below D, i.e. T > N^2 A): mass above it <= 0.05 and expectation <= envelope.
//! (b) a finite, replayable selection of LONG histories (decisions = hash(seed, key)): every small
//!     game and family x method x preset x T in {100, 3000} x seeds: each run below the envelope; over
//!     the collection the median regret / D at 3000 is below 1 % and below half its value at 100.
//!     This part samples histories and is labelled so.
//! The "overwhelming probability" clause at budgets in the thousands is not decidable by bounded
//! enumeration; it follows from C08 (every history computes the textbook iterate) + C10 (draws
//! follow the declared distributions) + the published MCCFR theorem, and (a) + (b) are its
//! executable consequences.
use super::c02::true_regret;
use super::c07::SAMPLED;
use super::c08::{method_name, ParamSpec, PRESET_NAMES};
use super::universe_summary;
use crate::explore::{explore, Fallback, Pinned};
use crate::framework::{guarded, par_for_each, Ctx};
use crate::multi::POOL_GATE;
use crate::refcfr::RefMethod;
use crate::refmodel::game_dims;
use crate::runner::run_impl;
use crate::subject::{build, G};
use crate::tree::Tree;
use crate::universe::{families, fill_distinct, skeletons, Bounds};
use rayon::prelude::*;
use serde_json::{json, Value};
use std::collections::BTreeMap;

pub const TAIL: f64 = 0.05;

/// largest observed (tail mass, expectation / envelope, pinned regret / envelope): how far correct
/// code stays from the oracle's thresholds
pub static MARGINS: std::sync::Mutex<(f64, f64, f64)> = std::sync::Mutex::new((0.0, 0.0, 0.0));

fn envelope(tree: &Tree, iters: u64) -> (f64, f64) {
    let (d, n, a) = game_dims(tree);
    (d * n as f64 * (a as f64).sqrt() / (iters as f64).sqrt(), d)
}

/// (a) one (game, method, preset, T): the exact distribution of the true regret over all histories
pub fn exact_distribution(ctx: &Ctx, tree: &Tree, game: &G, method: RefMethod, preset: usize, iters: u64, cap: u64) -> Option<bool> {
    let (env, d) = envelope(tree, iters);
    let replay = json!({"part": "a", "tree": tree.to_replay(), "method": method_name(method), "preset": PRESET_NAMES[preset], "iters": iters});
    let label = format!("[{} {} T={}] on {}", method_name(method), PRESET_NAMES[preset], iters, tree.show());
    let mut mass = 0.0;
    let mut above = 0.0;
    let mut expectation = 0.0;
    let mut worst: (f64, Value) = (0.0, Value::Null);
    let mut failed = false;
    let stats = explore(
        |decider| guarded(|| run_impl(tree, game, method, iters, 0.0, 1, None, ParamSpec::Preset(preset).implementation(), decider)),
        |log, prob, res| match res {
            Ok(Ok(out)) => match true_regret(tree, game, &out) {
                Ok((regs, _)) => {
                    let regret = f64::max(regs[0], regs[1]);
                    mass += prob;
                    expectation += prob * regret;
                    if regret > env {
                        above += prob;
                    }
                    if regret > worst.0 {
                        worst = (regret, crate::explore::draws_json(log));
                    }
                }
                Err(_) => failed = true,
            },
            _ => failed = true,
        },
        cap,
    );
    let stats = match stats {
        Ok(s) => s,
        Err(msg) => {
            ctx.violation("explorer-divergence", &format!("{} {}", msg, label), replay);
            return None;
        }
    };
    if stats.capped {
        return Some(false);
    }
    ctx.add(&ctx.states, stats.runs);
    ctx.add(&ctx.evaluations, stats.runs);
    ctx.add(&ctx.validated, stats.runs);
    ctx.add(&ctx.transitions, stats.draws + stats.runs * iters);
    if failed {
        ctx.violation("run-failed", &format!("a history failed or returned an invalid profile {}", label), replay);
        return Some(true);
    }
    if (mass + stats.skipped_mass - 1.0).abs() > 1e-9 {
        ctx.violation("probability-mass", &format!("the probabilities of all {} histories sum to {} (+ {} not explored), not 1 {}", stats.runs, mass, stats.skipped_mass, label), replay.clone());
    }
    if env < d {
        ctx.add(&ctx.nontrivial, stats.runs);
        ctx.count("distributions_judged_(envelope_below_payoff_range)", 1);
        {
            let mut m = MARGINS.lock().unwrap();
            m.0 = m.0.max(above);
            m.1 = m.1.max(expectation / env);
            if above > 0.01 && std::env::var("VERIF_DEBUG").is_ok() {
                eprintln!("tail {:.4} env/D {:.3} exp/env {:.3} {}", above, env / d, expectation / env, label);
            }
        }
        // where the envelope is only just below the payoff range the statement says little: a
        // quarter of the mass may exceed it; from half the range down the tail must be small
        let tail = if env <= 0.5 * d { TAIL } else { 0.25 };
        if above > tail {
            let mut rep = replay.clone();
            rep["script"] = worst.1.clone();
            ctx.violation("tail-mass", &format!("probability {} (> {}) of a true regret above D N sqrt(A)/sqrt(T) = {} (worst history: regret {}) {}", above, tail, env, worst.0, label), rep);
        }
        if expectation > env {
            let mut rep = replay.clone();
            rep["script"] = worst.1.clone();
            ctx.violation("expected-regret", &format!("expected true regret {} above the envelope {} {}", expectation, env, label), rep);
        }
    } else {
        ctx.count("distributions_not_judged_(envelope_at_or_above_payoff_range)", 1);
    }
    Some(true)
}

/// (b) one pinned long history; returns regret / D
pub fn pinned_run(ctx: &Ctx, tree: &Tree, game: &G, method: RefMethod, preset: usize, iters: u64, seed: u64, threads: usize) -> Option<f64> {
    let (env, d) = envelope(tree, iters);
    let replay = json!({"part": "b", "tree": tree.to_replay(), "method": method_name(method), "preset": PRESET_NAMES[preset], "iters": iters, "seed": seed, "threads": threads});
    let label = format!("[{} {} T={} seed={} threads={}] on {}", method_name(method), PRESET_NAMES[preset], iters, seed, threads, if tree.num_internal() > 14 { format!("<{} internal nodes>", tree.num_internal()) } else { tree.show() });
    let decider = Pinned::new(BTreeMap::new(), Fallback::Hash(seed));
    let res = {
        let _gate = if threads != 1 { Some(POOL_GATE.lock().unwrap_or_else(|e| e.into_inner())) } else { None };
        guarded(|| run_impl(tree, game, method, iters, 0.0, threads, None, ParamSpec::Preset(preset).implementation(), &decider))
    };
    let out = match res {
        Ok(Ok(out)) => out,
        Ok(Err(msg)) | Err(msg) => {
            ctx.violation("run-failed", &format!("{} {}", msg, label), replay);
            return None;
        }
    };
    let regret = match true_regret(tree, game, &out) {
        Ok((regs, _)) => f64::max(regs[0], regs[1]),
        Err(msg) => {
            ctx.violation("profile-invalid", &format!("{} {}", msg, label), replay);
            return None;
        }
    };
    ctx.count("pinned_long_histories_(finite_selection)", 1);
    ctx.add(&ctx.transitions, iters);
    if env < d {
        let mut m = MARGINS.lock().unwrap();
        m.2 = m.2.max(regret / env);
        if regret / env > 0.5 && std::env::var("VERIF_DEBUG").is_ok() {
            eprintln!("ratio {:.3} {}", regret / env, label);
        }
    }
    if env < d {
        ctx.count("pinned_runs_judged", 1);
        if regret > env {
            ctx.count("pinned_runs_above_envelope", 1);
        }
        // one history above the envelope does not contradict a high-probability statement; one far
        // above it does (correct code stays below 1x on every pinned history tried, see
        // largest_observed), and so does a noticeable fraction above it (judged over the collection)
        if regret > 3.0 * env {
            ctx.violation("pinned-run-far-above-envelope", &format!("true regret {} more than three times D N sqrt(A)/sqrt(T) = {} {}", regret, env, label), replay);
        }
    }
    Some(if d > 0.0 { regret / d } else { 0.0 })
}

fn median(vals: &mut Vec<f64>) -> f64 {
    vals.sort_by(|a, b| a.partial_cmp(b).unwrap());
    if vals.is_empty() {
        0.0
    } else {
        vals[vals.len() / 2]
    }
}

pub fn run(ctx: &Ctx) -> i32 {
    // (a)
    let bounds = Bounds { max_internal: 3, max_arity: 3, max_leaves: 5, chance_infosets: true, degenerate: false };
    let skels = skeletons(&bounds);
    universe_summary(ctx, &bounds, skels.len());
    let mut small: Vec<(String, Tree)> = skels
        .iter()
        .enumerate()
        .map(|(i, s)| (format!("u{}", i), fill_distinct(s, i)))
        .filter(|(_, tr)| {
            let (d, n, _) = game_dims(tr);
            n >= 1 && n <= 2 && d > 0.0
        })
        .collect();
    if !ctx.thorough() {
        small = small.into_iter().step_by(3).collect();
    }
    for (name, tree) in families() {
        let (_, n, _) = game_dims(&tree);
        if n >= 1 && n <= 2 && !name.starts_with("rare_chance_1e3") && !name.starts_with("rare_chance_1e4") {
            small.push((name, tree));
        }
    }
    let ladder: &[u64] = if ctx.thorough() { &[1, 2, 3, 4, 5, 6, 8, 10, 12, 14, 16] } else { &[1, 2, 3, 4, 6, 8, 10, 12] };
    let cap: u64 = if ctx.thorough() { 70_000 } else { 20_000 };
    let presets: &[usize] = if ctx.thorough() { &[0, 2, 3] } else { &[0, 3] };
    ctx.set("part_a", json!({"games": small.len(), "budget_ladder": ladder, "history_cap": cap, "presets": presets.iter().map(|p| PRESET_NAMES[*p]).collect::<Vec<_>>(), "tail_threshold": "0.05 where the envelope is at most half the payoff range, 0.25 where it is between half and all of it"}));
    small.par_iter().enumerate().for_each(|(gi, (name, tree))| {
        if ctx.stopped() {
            return;
        }
        let game = match build(tree) {
            Ok(g) => g,
            Err(_) => return,
        };
        for method in SAMPLED {
            for &preset in presets {
                let mut horizon = 0;
                for &iters in ladder {
                    match exact_distribution(ctx, tree, &game, method, preset, iters, cap) {
                        Some(true) => horizon = iters,
                        _ => break,
                    }
                }
                ctx.count(&format!("horizon_reached_{}", method_name(method)), horizon);
                ctx.count(&format!("configurations_{}", method_name(method)), 1);
            }
        }
        if gi % 397 == 0 {
            ctx.sample("(a) game: exact regret distribution over all draw histories, per budget of the ladder", json!({"name": name, "tree": tree.show(), "dims_D_N_A": game_dims(tree)}));
        }
    });
    // (b)
    let mut long: Vec<(String, Tree)> = families().into_iter().filter(|(n, _)| n != "single_terminal").collect();
    long.extend(super::c06::collision_games());
    let tiny = Bounds { max_internal: 2, max_arity: 3, max_leaves: 5, chance_infosets: true, degenerate: false };
    for (i, s) in skeletons(&tiny).iter().enumerate() {
        for v in 0..3 {
            let tree = fill_distinct(s, i + v);
            let (d, n, _) = game_dims(&tree);
            if n >= 1 && d > 0.0 {
                long.push((format!("t{}v{}", i, v), tree));
            }
        }
    }
    let seeds: u64 = if ctx.thorough() { 16 } else { 6 };
    let all_presets: Vec<usize> = (0..5).collect();
    ctx.set("part_b", json!({"games": long.len(), "budgets": [100, 3000], "seeds_per_configuration": seeds, "presets": PRESET_NAMES, "exhaustive": false}));
    let ratios: std::sync::Mutex<[Vec<f64>; 2]> = std::sync::Mutex::new([Vec::new(), Vec::new()]);
    long.par_iter().enumerate().for_each(|(gi, (name, tree))| {
        let game = match build(tree) {
            Ok(g) => g,
            Err(_) => return,
        };
        for method in SAMPLED {
            for &preset in &all_presets {
                for seed in 0..seeds {
                    let seed = crate::explore::mix(crate::explore::mix(ctx.seed) ^ (gi as u64) << 16 ^ (preset as u64) << 8 ^ seed);
                    for (slot, iters) in [(0usize, 100u64), (1, 3000)] {
                        if let Some(r) = pinned_run(ctx, tree, &game, method, preset, iters, seed, 1) {
                            ratios.lock().unwrap()[slot].push(r);
                        }
                    }
                }
            }
        }
        if name == "kuhn" {
            ctx.sample("(b) pinned long histories (hash of seed and draw key)", json!({"name": name, "methods": ["sampled", "external"], "presets": PRESET_NAMES, "budgets": [100, 3000], "seeds": seeds}));
        }
    });
    // two threads (real pool) on a few families
    let fams: Vec<(String, Tree)> = long.iter().filter(|(n, _)| ["kuhn", "matching_pennies", "dominated_action", "shared_then_own_3", "wide_shared_4", "deep_chain_5"].contains(&n.as_str())).cloned().collect();
    par_for_each(&fams, 1, |gi, (_, tree)| {
        let game = match build(tree) {
            Ok(g) => g,
            Err(_) => return,
        };
        for method in SAMPLED {
            for preset in [0usize, 3] {
                for threads in [2usize, 4] {
                    pinned_run(ctx, tree, &game, method, preset, 1000, crate::explore::mix(crate::explore::mix(ctx.seed) ^ gi as u64), threads);
                    ctx.count("real_pool_runs", 1);
                }
            }
        }
    });
    let mut ratios = ratios.into_inner().unwrap();
    let (m100, m3000) = (median(&mut ratios[0]), median(&mut ratios[1]));
    let (judged, above) = (ctx.counter("pinned_runs_judged"), ctx.counter("pinned_runs_above_envelope"));
    if judged > 0 && above as f64 > 0.02 * judged as f64 {
        ctx.violation("pinned-runs-above-envelope", &format!("{} of {} pinned long histories end above the envelope (more than 2 %)", above, judged), json!({"part": "b-collection"}));
    }
    let m = *MARGINS.lock().unwrap();
    ctx.set("largest_observed", json!({"tail_mass_above_envelope": m.0, "expected_regret_over_envelope": m.1, "pinned_run_regret_over_envelope": m.2}));
    ctx.set("collection_median_regret_over_range", json!({"T=100": m100, "T=3000": m3000, "runs_each": ratios[1].len()}));
    if !ratios[1].is_empty() {
        if !(m3000 < 0.01) {
            ctx.violation("collection-median", &format!("median regret / payoff range after 3000 iterations is {} (not below 1 %)", m3000), json!({"part": "b-collection"}));
        }
        if !(m3000 <= 0.5 * m100 || m100 == 0.0) {
            ctx.violation("collection-progress", &format!("median regret / payoff range is {} after 3000 iterations, {} after 100: not far below", m3000, m100), json!({"part": "b-collection"}));
        }
    }
    ctx.assume("(a) is exhaustive: every draw history with its exact probability, on games with at most two decision infosets and up to the horizon where the history count reaches the cap; the tail threshold 0.05 and 'expectation below the envelope' are consequences of the statement, not the statement");
    ctx.assume("(b) is a finite replayable selection of long histories, not an enumeration (exhaustive: false for that part); the high-probability clause at budgets in the thousands rests on C08 + C10 + the published theorem");
    ctx.finish(
        "(a) every game of the universe with one or two decision infosets (+ small families) x {sampled, external} x presets x every budget of the ladder up to the history cap: all draw histories with exact probabilities; (b) families, collision games and the tiny universe x methods x 5 presets x {100, 3000} iterations x seeds of hash-pinned histories; states = histories explored in (a); non-trivial = histories of distributions whose envelope is below the payoff range",
        true,
        "E-CHOICE on the real solvers: the sampling hook enumerates every draw history with its probability, the brute-force evaluator gives the true regret of every returned profile, and the exact tail mass and expectation are compared with the envelope of the statement",
    )
}

pub fn replay(ctx: &Ctx, val: &Value) -> i32 {
    if val["part"].as_str() == Some("b-collection") {
        println!("collection-level statistic: rerun the check");
        return 2;
    }
    let tree = Tree::from_replay(&val["tree"]);
    let game = build(&tree).expect("valid game");
    let method = super::c08::method_from(val["method"].as_str().unwrap());
    let preset = PRESET_NAMES.iter().position(|n| Some(*n) == val["preset"].as_str()).unwrap();
    let before = ctx.num_violations();
    if val["part"].as_str() == Some("a") {
        exact_distribution(ctx, &tree, &game, method, preset, val["iters"].as_u64().unwrap(), 2_000_000);
    } else {
        pinned_run(ctx, &tree, &game, method, preset, val["iters"].as_u64().unwrap(), val["seed"].as_u64().unwrap(), val["threads"].as_u64().unwrap_or(1) as usize);
    }
    let ok = ctx.num_violations() == before;
    println!("replay {}", if ok { "passes" } else { "fails" });
    if ok {
        0
    } else {
        1
    }
}
