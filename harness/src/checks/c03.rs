//! C03 — the unsampled solve converges at the CFR rate on every game.
//! The solver is a deterministic transition system over iterations: each (game, preset) is one
//! trace and every listed budget T is a state of it at which the two envelopes are evaluated.
//! Enumerated: every valid game of the universe and every member of the adversarial families
//! (deep chains, wide shared infosets, rare chance outcomes, dominated actions, k-ary trees,
//! payoffs scaled by 2^-80 and 2^40) x presets {vanilla, lcfr, cfr_plus, dcfr, dcfr_prune} x
//! budgets; thread counts {2, 3, 5} (real pool) on the families.
//! Oracle: vanilla: each player's bound <= 2 D N sqrt(A) / sqrt(T); every preset: true regret
//! <= 6 D N (sqrt(A) + 1/sqrt(T)) / sqrt(T), D / N / A computed from the tree by the harness.
use super::c02::true_regret;
use super::c08::{ParamSpec, PRESET_NAMES};
use super::universe_summary;
use crate::explore::{Fallback, Pinned};
use crate::framework::{guarded, par_for_each, Ctx};
use crate::multi::POOL_GATE;
use crate::refcfr::RefMethod;
use crate::refmodel::game_dims;
use crate::runner::{run_impl, ImplOut};
use crate::subject::{build, G};
use crate::tree::Tree;
use crate::universe::{families, fill_distinct, kary_alternating, skeletons, Bounds};
use rayon::prelude::*;
use serde_json::{json, Value};
use std::collections::BTreeMap;

fn solve(tree: &Tree, game: &G, preset: usize, iters: u64, threads: usize) -> Result<ImplOut, String> {
    let decider = Pinned::new(BTreeMap::new(), Fallback::Free);
    let _gate = if threads != 1 { Some(POOL_GATE.lock().unwrap_or_else(|e| e.into_inner())) } else { None };
    guarded(|| run_impl(tree, game, RefMethod::Full, iters, 0.0, threads, None, ParamSpec::Preset(preset).implementation(), &decider)).map_err(|m| format!("panic: {}", m))?
}

pub fn scale(tree: &Tree, factor: f64) -> Tree {
    let mut res = tree.clone();
    res.walk_mut(&mut |n| {
        if let Tree::T(pay) = n {
            *pay *= factor;
        }
    });
    res
}

/// the envelopes at one state of the trace; returns (regret / envelope, bound / envelope)
pub fn check_state(ctx: &Ctx, tree: &Tree, game: &G, preset: usize, iters: u64, threads: usize) -> Option<(f64, f64)> {
    let (d, n, a) = game_dims(tree);
    let replay = json!({"tree": tree.to_replay(), "preset": PRESET_NAMES[preset], "iters": iters, "threads": threads});
    let label = format!("[full {} T={} threads={}; D={} N={} A={}] on {}", PRESET_NAMES[preset], iters, threads, d, n, a, if tree.num_internal() > 14 { format!("<{} internal nodes>", tree.num_internal()) } else { tree.show() });
    let out = match solve(tree, game, preset, iters, threads) {
        Ok(out) => out,
        Err(msg) => {
            ctx.violation("run-failed", &format!("{} {}", msg, label), replay);
            return None;
        }
    };
    let (regs, _) = match true_regret(tree, game, &out) {
        Ok(r) => r,
        Err(msg) => {
            ctx.violation("profile-invalid", &format!("{} {}", msg, label), replay);
            return None;
        }
    };
    let (dn, root_t) = (d * n as f64, (iters as f64).sqrt());
    let regret_env = 6.0 * dn * ((a as f64).sqrt() + 1.0 / root_t) / root_t;
    let bound_env = 2.0 * dn * (a as f64).sqrt() / root_t;
    let regret = f64::max(regs[0], regs[1]);
    let slack = 1e-9 * f64::max(d, f64::MIN_POSITIVE);
    ctx.case(iters, n > 0 && d > 0.0);
    if !(regret <= regret_env + slack) {
        ctx.violation("regret-above-envelope", &format!("true regret {} > 6 D N (sqrt A + 1/sqrt T)/sqrt T = {} {}", regret, regret_env, label), replay.clone());
    }
    let mut bound_ratio = 0.0;
    if preset == 0 {
        for pl in 0..2 {
            if !(out.bounds[pl] <= bound_env + slack) {
                ctx.violation("bound-above-envelope", &format!("player {} bound {} > 2 D N sqrt A / sqrt T = {} {}", pl + 1, out.bounds[pl], bound_env, label), replay.clone());
            }
            if bound_env > 0.0 {
                bound_ratio = f64::max(bound_ratio, out.bounds[pl] / bound_env);
            }
        }
    }
    Some((if regret_env > 0.0 { regret / regret_env } else { 0.0 }, bound_ratio))
}

pub fn adversarial() -> Vec<(String, Tree)> {
    let mut res: Vec<(String, Tree)> = families();
    res.extend(super::c06::collision_games());
    for (k, depths) in [(2usize, 2..=5usize), (3, 2..=3)] {
        for d in depths {
            res.push((format!("kary_{}_{}", k, d), kary_alternating(k, d)));
        }
    }
    // matrix games: a root with k actions over one shared opponent infoset with k actions
    for k in [3usize, 4] {
        let acts: Vec<(String, Tree)> = (0..k)
            .map(|i| (format!("r{}", i), Tree::P(1, "z".to_string(), (0..k).map(|j| (format!("c{}", j), Tree::T((((i * 7 + j * 5 + i * j * 3) % 11) as f64) - 5.0))).collect())))
            .collect();
        res.push((format!("matrix_{}x{}", k, k), Tree::P(0, "root".to_string(), acts)));
    }
    // one player-one infoset whose nodes sit below one, two and three chance nodes
    {
        use crate::tree::{c, p, t};
        let x = |a: f64, b: f64| p(0, "x", vec![("a", t(a)), ("b", t(b))]);
        res.push((
            "coin_tree".into(),
            c(None, vec![(1.0, x(1.0, -1.0)), (1.0, c(None, vec![(1.0, c(None, vec![(1.0, x(-2.0, 1.0)), (1.0, x(0.5, 0.0))])), (1.0, c(None, vec![(1.0, x(-1.0, 2.0)), (1.0, t(0.0))]))]))]),
        ));
    }
    // the envelope scales with D: tiny and huge payoff ranges
    let base: Vec<(String, Tree)> = res.iter().filter(|(n, _)| ["matching_pennies", "dominated_action", "kuhn", "wide_shared_3", "deep_chain_4", "rare_chance_1e2"].contains(&n.as_str())).cloned().collect();
    for (name, tree) in base {
        res.push((format!("{}_x2^-80", name), scale(&tree, 2f64.powi(-80))));
        res.push((format!("{}_x1e-24", name), scale(&tree, 1e-24)));
        res.push((format!("{}_x2^40", name), scale(&tree, 2f64.powi(40))));
    }
    res
}

pub fn run(ctx: &Ctx) -> i32 {
    let bounds = if ctx.thorough() {
        Bounds { max_internal: 4, max_arity: 3, max_leaves: 5, chance_infosets: true, degenerate: true }
    } else {
        Bounds { max_internal: 3, max_arity: 3, max_leaves: 5, chance_infosets: true, degenerate: true }
    };
    let skels = skeletons(&bounds);
    universe_summary(ctx, &bounds, skels.len());
    let universe: Vec<(String, Tree)> = skels.iter().enumerate().filter(|(_, s)| super::has_decision(s)).map(|(i, s)| (format!("u{}", i), fill_distinct(s, i))).collect();
    let fams = adversarial();
    let uni_budgets: &[u64] = if ctx.thorough() { &[1, 2, 3, 5, 10, 30, 100, 300, 1000, 3000] } else { &[1, 2, 3, 5, 10, 30, 100, 300, 1000] };
    let fam_budgets: &[u64] = if ctx.thorough() { &[1, 2, 3, 5, 10, 30, 100, 300, 1000, 3000, 30_000] } else { &[1, 2, 3, 5, 10, 30, 100, 300, 1000, 3000] };
    ctx.set("budgets_universe", json!(uni_budgets));
    ctx.set("budgets_families", json!(fam_budgets));
    ctx.set("family_games", json!(fams.len()));
    let worst = std::sync::Mutex::new((0.0f64, 0.0f64, String::new(), String::new()));
    let note = |ratios: Option<(f64, f64)>, what: String| {
        if let Some((r, b)) = ratios {
            let mut w = worst.lock().unwrap();
            if r > w.0 {
                w.0 = r;
                w.2 = what.clone();
            }
            if b > w.1 {
                w.1 = b;
                w.3 = what;
            }
        }
    };
    let all: Vec<(bool, &(String, Tree))> = universe.iter().map(|g| (false, g)).chain(fams.iter().map(|g| (true, g))).collect();
    all.par_iter().enumerate().for_each(|(gi, (family, (name, tree)))| {
        if ctx.stopped() {
            return;
        }
        let game = match build(tree) {
            Ok(g) => g,
            Err(_) => return,
        };
        let (_, n, _) = game_dims(tree);
        for preset in 0..5 {
            let budgets = if *family { fam_budgets } else { uni_budgets };
            for &iters in budgets {
                if tree.num_internal() > 30 && iters > 1000 {
                    continue;
                }
                let ratios = check_state(ctx, tree, &game, preset, iters, 1);
                note(ratios, format!("{} {} T={}", name, PRESET_NAMES[preset], iters));
            }
            // where the envelope is small against D a non-converging solver is far outside it
            if ctx.thorough() && *family && n <= 2 {
                let ratios = check_state(ctx, tree, &game, preset, 300_000, 1);
                note(ratios, format!("{} {} T=300000", name, PRESET_NAMES[preset]));
            }
        }
        if *family && gi % 9 == 0 {
            ctx.sample("family game: one trace per preset, envelopes at every listed budget", json!({"name": name, "dims_D_N_A": game_dims(tree), "presets": PRESET_NAMES}));
        }
    });
    // thread counts (real pool) on the families, a few states per trace
    let tb: &[u64] = &[1, 10, 100, 1000];
    par_for_each(&fams, 1, |_, (name, tree)| {
        if tree.num_internal() > 30 {
            return;
        }
        let game = match build(tree) {
            Ok(g) => g,
            Err(_) => return,
        };
        for preset in [0usize, 3] {
            let wide = name == "coin_tree" || name.starts_with("matrix_");
            let thread_counts: &[usize] = if wide { &[2, 3, 4, 6, 8] } else { &[2, 3, 5] };
            for &threads in thread_counts {
                for &iters in tb.iter().chain(if wide { [3000u64].iter() } else { [].iter() }) {
                    let ratios = check_state(ctx, tree, &game, preset, iters, threads);
                    note(ratios, format!("{} {} T={} threads={}", name, PRESET_NAMES[preset], iters, threads));
                    ctx.count("real_pool_runs", 1);
                }
            }
        }
    });
    // thorough: a long multi-threaded run on the matrix games, where the envelope is small against
    // the payoff range (a solver that converges to the wrong point at several threads is outside it)
    if ctx.thorough() {
        let long: Vec<(String, Tree)> = fams.iter().filter(|(n, _)| n.starts_with("matrix_")).cloned().collect();
        par_for_each(&long, 1, |_, (name, tree)| {
            let game = build(tree).unwrap();
            for preset in [0usize, 3] {
                for threads in [2usize, 3] {
                    let ratios = check_state(ctx, tree, &game, preset, 100_000, threads);
                    note(ratios, format!("{} {} T=100000 threads={}", name, PRESET_NAMES[preset], threads));
                    ctx.count("real_pool_runs", 1);
                }
            }
        });
    }
    let w = worst.lock().unwrap();
    ctx.set("largest_true_regret_over_envelope", json!({"ratio": w.0, "at": w.2}));
    ctx.set("largest_vanilla_bound_over_envelope", json!({"ratio": w.1, "at": w.3}));
    ctx.assume("the envelopes are evaluated at the listed budgets of each trace (prefix runs); C09 ties thresholded runs to prefix runs and C06 ties thread counts to one thread");
    ctx.assume("budgets beyond 3000 (30 000 / 300 000 in the thorough tier on the smallest families) are not explored; the envelope is loose on correct code (see the recorded largest ratios), so a slowly diverging solver inside the envelope would not be noticed");
    ctx.finish(
        "every valid game within the bounds + adversarial families (deep chains, wide shared infosets, rare chance outcomes, dominated actions, k-ary trees, payoff ranges 2^-80 .. 2^40) x 5 presets x budgets; states = (game, preset, budget[, threads]); non-trivial = the game has a decision and a non-zero payoff range",
        true,
        "each (game, preset) is one deterministic trace of the real solver; both envelopes of the statement are evaluated at every listed state of every trace, with the true regret from the brute-force evaluator",
    )
}

pub fn replay(ctx: &Ctx, val: &Value) -> i32 {
    let tree = Tree::from_replay(&val["tree"]);
    let game = build(&tree).expect("valid game");
    let preset = PRESET_NAMES.iter().position(|n| Some(*n) == val["preset"].as_str()).unwrap();
    let before = ctx.num_violations();
    check_state(ctx, &tree, &game, preset, val["iters"].as_u64().unwrap(), val["threads"].as_u64().unwrap_or(1) as usize);
    let ok = ctx.num_violations() == before;
    println!("replay {}", if ok { "passes" } else { "fails" });
    if ok {
        0
    } else {
        1
    }
}
