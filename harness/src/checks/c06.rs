//! C06 — the unsampled solve gives the same answer for every thread count.
//!
//! Layer 1 (decompositions; real pool): every valid game x presets x budgets x every task target
//! 1..=12 through the hook (2 workers) and thread counts through the public entry point on the
//! k-ary and curated families; thresholds placed between bound values of the run. The frontier
//! split is a deterministic function of (tree, strategies, target): enumeration decides "a subtree
//! visited twice or not at all" and "state reused across iterations".
//! Layer 2 (schedules; loom): every interleaving of the worker tasks of the real solve_full_multi
//! on every small game and on games built to collide, for every task target; unbounded DPOR for two
//! concurrent tasks, preemption-bounded above.
//! Oracle: strategies and bounds within 1e-9 (relative) of the one-thread result; no panic, error
//! or deadlock. Runs in which the specification meets a tie / near-zero regret sum are counted, not
//! judged (regret matching is discontinuous there).
use super::c08::{ParamSpec, PRESET_NAMES};
use super::universe_summary;
use crate::explore::Fallback;
use crate::framework::{par_for_each, Ctx};
use crate::multi::{check_real, judge_loom, loom_available, loom_case, report_loom, run_loom, sequential, Config, LoomBounds, LoomTotals};
use crate::refcfr::{RefMethod, RefParams};
use crate::runner::align;
use crate::subject::build;
use crate::tree::{c, p, t, Tree};
use crate::universe::{families, fill_distinct, kary_alternating, skeletons, wide_shared, Bounds};
use serde_json::{json, Value};
use std::collections::BTreeMap;

/// games built so that worker tasks collide on shared infosets
pub fn collision_games() -> Vec<(String, Tree)> {
    let mut res = Vec::new();
    for w in 2..=4 {
        res.push((format!("wide_shared_{}", w), wide_shared(w)));
    }
    // chance root over one shared player-one infoset
    res.push((
        "chance_over_shared_p1".into(),
        c(
            None,
            vec![
                (1.0, p(0, "x", vec![("a", t(1.0)), ("b", t(-2.0))])),
                (3.0, p(0, "x", vec![("a", t(-1.0)), ("b", t(0.5))])),
                (4.0, p(0, "x", vec![("a", t(0.0)), ("b", t(2.0))])),
            ],
        ),
    ));
    // two levels: P1 root, P2 does not see P1's move (one infoset), P1 moves again (sees own move only)
    let second = |tag: &str, base: f64| {
        p(
            1,
            "z",
            vec![
                ("l", p(0, &format!("s{}", tag), vec![("u", t(base)), ("d", t(-base + 0.5))])),
                ("r", p(0, &format!("s{}", tag), vec![("u", t(base - 2.0)), ("d", t(1.5 - base))])),
            ],
        )
    };
    res.push(("two_level_shared".into(), p(0, "root", vec![("a", second("a", 1.0)), ("b", second("b", -0.5))])));
    // shared chance infoset below the frontier
    let below = |pay: f64| c(Some("k"), vec![(1.0, t(pay)), (1.0, t(-pay + 1.0))]);
    res.push((
        "shared_chance_below".into(),
        p(0, "root", vec![("a", p(1, "z", vec![("l", below(1.0)), ("r", below(-2.0))])), ("b", p(1, "z", vec![("l", below(0.5)), ("r", below(3.0))]))]),
    ));
    // non-dyadic payoffs: summation order shows up in the last bits (several bit-level outcomes)
    res.push((
        "wide_shared_nondyadic".into(),
        p(0, "root", vec![("a", p(1, "z", vec![("l", t(0.1)), ("r", t(-0.7))])), ("b", p(1, "z", vec![("l", t(-0.3)), ("r", t(1.1))])), ("c", p(1, "z", vec![("l", t(0.9)), ("r", t(-0.2))]))]),
    ));
    // external sampling only hands out tasks when a frontier level survives one sampled step: a
    // player-one root with k actions over one shared player-two infoset, each followed by a
    // player-one decision (own move remembered). The tasks are player-two nodes of ONE infoset.
    for k in [3usize, 4] {
        let acts: Vec<(String, Tree)> = (0..k)
            .map(|i| {
                let own = |j: usize| Tree::P(0, format!("s{}", i), vec![("u".to_string(), t((i * 2 + j) as f64 - 2.0)), ("d".to_string(), t(1.5 - (i + 2 * j) as f64))]);
                (format!("r{}", i), Tree::P(1, "z".to_string(), vec![("l".to_string(), own(0)), ("r".to_string(), own(1))]))
            })
            .collect();
        res.push((format!("shared_then_own_{}", k), Tree::P(0, "root".to_string(), acts)));
    }
    // the mirror image: player two at the root, player one's shared infoset in the middle
    {
        let acts: Vec<(String, Tree)> = (0..3usize)
            .map(|i| {
                let own = |j: usize| Tree::P(1, format!("s{}", i), vec![("u".to_string(), t((i + j) as f64 - 1.0)), ("d".to_string(), t(0.5 - (i * j) as f64))]);
                (format!("r{}", i), Tree::P(0, "z".to_string(), vec![("l".to_string(), own(0)), ("r".to_string(), own(1))]))
            })
            .collect();
        res.push(("shared_then_own_mirror_3".into(), Tree::P(1, "root".to_string(), acts)));
    }
    // the two players' shared infosets in opposite order in the two subtrees of a chance root: two
    // tasks that each held one infoset's lock while reaching for the other's would deadlock
    res.push((
        "lock_order_inversion".into(),
        c(
            None,
            vec![
                (1.0, p(0, "x", vec![("a", p(1, "y", vec![("l", t(1.0)), ("r", t(-1.0))])), ("b", t(0.5))])),
                (1.0, p(1, "y", vec![("l", p(0, "x", vec![("a", t(-2.0)), ("b", t(1.0))])), ("r", t(0.0))])),
                (1.0, p(0, "x", vec![("a", p(1, "y", vec![("l", t(0.0)), ("r", t(2.0))])), ("b", t(-0.5))])),
                (1.0, p(1, "y", vec![("l", p(0, "x", vec![("a", t(1.5)), ("b", t(-1.0))])), ("r", t(1.0))])),
            ],
        ),
    ));
    // three root actions above one shared opponent infoset above one shared chance infoset: the
    // frontier hands out two opponent nodes, and the chance infoset is first touched (sampled)
    // inside the concurrent tasks
    res.push((
        "shared_chance_below_3".into(),
        p(
            0,
            "root",
            vec![
                ("a", p(1, "z", vec![("l", below(1.0)), ("r", below(-2.0))])),
                ("b", p(1, "z", vec![("l", below(0.5)), ("r", below(3.0))])),
                ("c", p(1, "z", vec![("l", below(-1.5)), ("r", below(0.25))])),
            ],
        ),
    ));
    res.push(("matching_pennies".into(), crate::universe::matching_pennies()));
    res.push(("binary_depth_3".into(), kary_alternating(2, 3)));
    res
}

fn specs(ctx: &Ctx) -> Vec<ParamSpec> {
    if ctx.thorough() {
        let mut s: Vec<ParamSpec> = (0..5).map(ParamSpec::Preset).collect();
        s.push(ParamSpec::Default);
        s.push(ParamSpec::Tuple(RefParams { a: 0.5, b: 1.0, g: 1.0, w: 1.0 }));
        s
    } else {
        // (the tuple: an average-strategy discount so strong that early iterations weigh nothing)
        vec![ParamSpec::Preset(0), ParamSpec::Preset(3), ParamSpec::Tuple(RefParams { a: 1.5, b: 0.0, g: 5000.0, w: f64::INFINITY })]
    }
}

/// thresholds that fall strictly between two well separated bound values of the one-thread run
fn thresholds(tree: &Tree, game: &crate::subject::G, al: &crate::runner::Alignment, spec: ParamSpec, iters: u64) -> Vec<f64> {
    let mut totals = Vec::new();
    for t in 1..=iters {
        let cfg = Config { method: RefMethod::Full, spec, iters: t, max_reg: 0.0, script: BTreeMap::new(), fallback: Fallback::First };
        match sequential(tree, game, al, &cfg) {
            Ok(seq) => totals.push(f64::max(seq.out.bounds[0], seq.out.bounds[1])),
            Err(_) => return vec![],
        }
    }
    let mut res = Vec::new();
    for pair in totals.windows(2) {
        let (hi, lo) = (f64::max(pair[0], pair[1]), f64::min(pair[0], pair[1]));
        if hi - lo > 1e-3 * f64::max(1.0, hi) && hi.is_finite() {
            res.push((hi + lo) / 2.0);
        }
    }
    res.truncate(2);
    // a threshold that a bound of the run hits exactly (the stop test is strict): the first two
    // distinct bound values before the last iteration; and +inf (stops after one iteration)
    let mut exact: Vec<f64> = Vec::new();
    for b in totals.iter().take(totals.len().saturating_sub(1)) {
        if b.is_finite() && *b > 0.0 && !exact.contains(b) {
            exact.push(*b);
        }
    }
    exact.truncate(2);
    res.extend(exact);
    res.push(f64::INFINITY);
    res
}

/// Layer 1a: the frontier split, deterministically. Every valid game x presets x budgets x every
/// task target 1..=12, run by the loom workers with every batch sequentialised (no threads): what
/// remains is exactly the decomposition logic (thread_threshold, the payoff cache, state kept
/// between iterations).
fn layer_decomposition(ctx: &Ctx, totals: &mut LoomTotals) {
    let bounds = if ctx.thorough() {
        Bounds { max_internal: 4, max_arity: 3, max_leaves: 6, chance_infosets: true, degenerate: true }
    } else {
        Bounds { max_internal: 3, max_arity: 3, max_leaves: 5, chance_infosets: true, degenerate: true }
    };
    let all = skeletons(&bounds);
    universe_summary(ctx, &bounds, all.len());
    let mut games: Vec<(String, Tree)> = all.iter().enumerate().map(|(i, s)| (format!("u{}", i), fill_distinct(s, i))).filter(|(_, tr)| super::has_decision(tr)).collect();
    games.extend(families());
    games.extend(collision_games());
    for (k, depths) in [(2usize, 2..=6usize), (3, 2..=4), (4, 2..=3)] {
        for d in depths {
            games.push((format!("kary_{}_{}", k, d), kary_alternating(k, d)));
        }
    }
    // one level deeper with binary branching: the smallest trees in which a node below TWO
    // expanded nodes (e.g. two chance nodes) can itself be handed out as a task; vanilla, budgets
    // {1, 2} only (marked by the name prefix)
    if !ctx.thorough() {
        let deeper = Bounds { max_internal: 4, max_arity: 2, max_leaves: 5, chance_infosets: false, degenerate: false };
        let skels4 = skeletons(&deeper);
        ctx.set("layer1_deeper_binary_skeletons", json!(skels4.len()));
        games.extend(skels4.iter().enumerate().filter(|(_, s)| s.num_internal() == 4 && super::has_decision(s)).map(|(i, s)| (format!("deep{}", i), fill_distinct(s, i))));
    }
    let budgets: &[u64] = if ctx.thorough() { &[0, 1, 2, 3, 4, 5, 8] } else { &[0, 1, 2, 3, 4, 8] };
    let targets: Vec<usize> = (1..=12).collect();
    let specs = specs(ctx);
    ctx.set("layer1_decomposition", json!({"games": games.len(), "budgets": budgets, "task_targets": "1..=12", "presets": specs.iter().map(|s| s.to_json()).collect::<Vec<_>>(), "thresholds": "0, and (on every 7th game and the families) up to two values strictly between consecutive bounds of the 4-iteration run, up to two values that a bound hits exactly, and +inf"}));
    let lb = LoomBounds { pb3: None, pb4: None, max_permutations: 1, max_seconds: 60 };
    let shared = std::sync::Mutex::new(LoomTotals::default());
    par_for_each(&games, 16, |gi, (name, tree)| {
        if ctx.stopped() {
            return;
        }
        let mut out = Vec::new();
        let game = match build(tree) {
            Ok(g) => g,
            Err(_) => return,
        };
        let al = match align(tree, &game) {
            Ok(al) => al,
            Err(_) => return,
        };
        let big = tree.num_internal() > 40;
        let deep = name.starts_with("deep");
        for (si, spec) in specs.iter().enumerate() {
            for &iters in budgets {
                if (big && iters > 4) || (deep && (si > 0 || iters > 2)) {
                    continue;
                }
                let mut regs = vec![0.0];
                if iters == 4 && (gi % 7 == 0 || tree.num_internal() > 4) {
                    regs.extend(thresholds(tree, &game, &al, *spec, iters));
                }
                for max_reg in regs {
                    let cfg = Config { method: RefMethod::Full, spec: *spec, iters, max_reg, script: BTreeMap::new(), fallback: Fallback::First };
                    match sequential(tree, &game, &al, &cfg) {
                        Ok(seq) => out.push(loom_case(0, tree, &cfg, &seq, 2, &targets, false, &lb)),
                        Err(msg) => ctx.violation("one-thread-run-failed", &format!("{} {}", msg, cfg.describe(tree)), cfg.to_json(tree)),
                    }
                }
            }
        }
        let results = run_loom(&out, 1);
        let mut local = LoomTotals::default();
        for (case, res) in out.iter().zip(results.iter()) {
            judge_loom(ctx, case, res, &mut local);
        }
        if gi % 1801 == 7 {
            if let Some(case) = out.last() {
                ctx.sample("layer 1a: decomposition case (12 task targets each)", json!({"tree": tree.show(), "preset": case["spec"], "iters": case["iters"], "max_reg": case["max_reg"], "targets": case["targets"]}));
            }
        }
        shared.lock().unwrap().merge(&local);
    });
    totals.merge(&shared.into_inner().unwrap());
}

/// Layer 1b: the real pool through the public entry point (task target 3 x threads) on the games
/// that are large enough to split there, and through the hook on the collision games: ties the shim
/// of layers 1a / 2 to the real rayon.
fn layer_real_pool(ctx: &Ctx) {
    let mut games: Vec<(String, Tree)> = families();
    games.extend(collision_games());
    for (k, depths) in [(2usize, 3..=7usize), (3, 2..=4), (4, 2..=3)] {
        for d in depths {
            games.push((format!("kary_{}_{}", k, d), kary_alternating(k, d)));
        }
    }
    let specs = specs(ctx);
    let budgets: &[u64] = if ctx.thorough() { &[1, 2, 3, 4, 8] } else { &[1, 2, 4] };
    let threads: &[usize] = if ctx.thorough() { &[2, 3, 4, 5, 6, 7, 8, 12, 16] } else { &[2, 3, 5, 8] };
    ctx.set("layer1_real_pool", json!({"games": games.len(), "budgets": budgets, "public_thread_counts": threads, "hook_targets_on_collision_games": "2..=8"}));
    par_for_each(&games, 1, |_, (name, tree)| {
        if ctx.stopped() {
            return;
        }
        let game = match build(tree) {
            Ok(g) => g,
            Err(_) => return,
        };
        let al = match align(tree, &game) {
            Ok(al) => al,
            Err(_) => return,
        };
        let big = tree.num_internal() > 40;
        for (si, spec) in specs.iter().enumerate() {
            for &iters in budgets {
                if big && (iters > 2 || si > 1) {
                    continue;
                }
                let cfg = Config { method: RefMethod::Full, spec: *spec, iters, max_reg: 0.0, script: BTreeMap::new(), fallback: Fallback::First };
                let seq = match sequential(tree, &game, &al, &cfg) {
                    Ok(seq) => seq,
                    Err(_) => continue,
                };
                for &th in threads {
                    check_real(ctx, tree, &game, &cfg, &seq, th, None);
                    ctx.case(iters, true);
                    ctx.count("real_pool_runs", 1);
                }
                if tree.num_internal() <= 8 && !ctx.thorough() && si == 0 {
                    for target in 2..=8 {
                        check_real(ctx, tree, &game, &cfg, &seq, 2, Some(target));
                        ctx.case(iters, true);
                        ctx.count("real_pool_runs", 1);
                    }
                }
            }
        }
        if name.starts_with("kary_2_5") {
            ctx.sample("layer 1b: real pool, public entry point", json!({"name": name, "threads": threads, "budgets": budgets}));
        }
    });
}

fn layer_two(ctx: &Ctx, totals: &mut LoomTotals) {
    let bounds = if ctx.thorough() {
        Bounds { max_internal: 3, max_arity: 3, max_leaves: 5, chance_infosets: true, degenerate: false }
    } else {
        Bounds { max_internal: 2, max_arity: 3, max_leaves: 5, chance_infosets: true, degenerate: false }
    };
    let skels = skeletons(&bounds);
    let mut games: Vec<(String, Tree)> = skels.iter().enumerate().map(|(i, s)| (format!("u{}", i), fill_distinct(s, i))).filter(|(_, tr)| super::has_decision(tr) && tr.num_internal() >= 2).collect();
    let small = games.len();
    games.extend(collision_games());
    let (budgets, targets): (&[u64], Vec<usize>) = if ctx.thorough() { (&[1, 2, 3], (2..=8).collect()) } else { (&[1, 2], (2..=6).collect()) };
    let lb = if ctx.thorough() {
        LoomBounds { pb3: Some(3), pb4: Some(2), max_permutations: 200_000, max_seconds: 120 }
    } else {
        LoomBounds { pb3: Some(2), pb4: Some(1), max_permutations: 50_000, max_seconds: 40 }
    };
    let specs = if ctx.thorough() { vec![ParamSpec::Preset(0), ParamSpec::Preset(3), ParamSpec::Preset(2)] } else { vec![ParamSpec::Preset(0), ParamSpec::Preset(3)] };
    let mut cases: Vec<Value> = Vec::new();
    for (gi, (_, tree)) in games.iter().enumerate() {
        let game = match build(tree) {
            Ok(g) => g,
            Err(_) => continue,
        };
        let al = match align(tree, &game) {
            Ok(al) => al,
            Err(_) => continue,
        };
        for spec in &specs {
            for &iters in budgets {
                // the universe part: vanilla at budgets <= 2, other presets at budget 2 only; the
                // longest budget is for the collision games
                if gi < small && (iters > 2 || (*spec != ParamSpec::Preset(0) && iters != 2)) {
                    continue;
                }
                let cfg = Config { method: RefMethod::Full, spec: *spec, iters, max_reg: 0.0, script: BTreeMap::new(), fallback: Fallback::First };
                if let Ok(seq) = sequential(tree, &game, &al, &cfg) {
                    // one case per target: the schedule exploration of one target can be long
                    for target in &targets {
                        cases.push(loom_case(0, tree, &cfg, &seq, 2, &[*target], true, &lb));
                    }
                }
            }
        }
    }
    ctx.set("layer2_schedules", json!({"games": games.len(), "of_which_universe": small, "budgets": budgets, "task_targets": targets, "preemption_bound_3_tasks": lb.pb3, "preemption_bound_4_tasks": lb.pb4, "two_tasks": "unbounded DPOR", "presets": specs.iter().map(|s| s.to_json()).collect::<Vec<_>>()}));
    let results = run_loom(&cases, 16);
    let mut sampled = 0;
    for (case, res) in cases.iter().zip(results.iter()) {
        judge_loom(ctx, case, res, totals);
        if let crate::multi::LoomResult::Done(Value::Array(vals)) = res {
            let val = &vals[0];
            if val["max_concurrent_tasks"].as_u64().unwrap_or(0) >= 2 && sampled < 3 && val["distinct_outcomes"].as_u64().unwrap_or(0) > 1 {
                sampled += 1;
                ctx.sample("layer 2: loom case", json!({"tree": Tree::from_replay(&case["tree"]).show(), "preset": case["spec"], "iters": case["iters"], "result": val}));
            }
        }
    }
}

pub fn run(ctx: &Ctx) -> i32 {
    let t0 = std::time::Instant::now();
    let mut walls = serde_json::Map::new();
    let mut capped = 0u64;
    let _ = PRESET_NAMES;
    layer_real_pool(ctx);
    walls.insert("real_pool".into(), json!(t0.elapsed().as_secs_f64()));
    if loom_available() {
        let mut dec = LoomTotals::default();
        let t1 = std::time::Instant::now();
        layer_decomposition(ctx, &mut dec);
        walls.insert("decomposition".into(), json!(t1.elapsed().as_secs_f64()));
        let t2 = std::time::Instant::now();
        ctx.set("layer1_decomposition_result", json!({"cases_(game,preset,budget,threshold,target)": dec.cases, "with_a_split_frontier": dec.cases_with_concurrency, "largest_frontier": dec.max_tasks}));
        let mut totals = LoomTotals::default();
        layer_two(ctx, &mut totals);
        report_loom(ctx, &totals);
        capped = totals.capped;
        walls.insert("schedules".into(), json!(t2.elapsed().as_secs_f64()));
    } else {
        ctx.set("loom", json!("NOT RUN: the loom worker is not built (/verif/target/loom/release/vloom missing or VERIF_NO_LOOM set); decompositions and schedules were not explored in this run"));
        println!("NOTE: loom layers skipped (worker not built)");
    }
    println!("  wall seconds by layer: {}", Value::Object(walls.clone()));
    ctx.set("wall_s_by_layer", Value::Object(walls));
    ctx.assume("layer 1 uses the real rayon pool: exhaustive over games, presets, budgets and task targets, but each run sees whatever schedule the pool produced");
    ctx.assume("layer 2 (loom): one loom thread per task of the frontier; <= 2 concurrent tasks explored without a bound, 3 / 4 tasks with the stated preemption bounds; rayon's own internals, weak-memory effects on values and par_iter_mut over exclusive items are not explored");
    ctx.assume("a multi-threaded run that differs from one thread while the executable specification reports a tie / near-zero regret sum under the same configuration is counted as ill conditioned, not judged");
    ctx.finish(
        "layer 1: every valid game within the bounds + curated / collision / k-ary families x presets x budgets x task targets 1..=12 (hook, 2 workers) and public thread counts {2,3,4,8,16} on the families; layer 2: every schedule (loom) of every task-target case of the small universe and the collision games; states = layer-1 cases + loom schedules; non-trivial = task target > 1 (layer 1) or >= 2 concurrent tasks (layer 2)",
        // exhaustive unless a loom case hit its permutation / time cap (those are counted in `loom`)
        capped == 0,
        "the real solve_full_multi is driven (a) through a real pool for every task decomposition and (b) under loom for every interleaving of its worker tasks; each result is compared with the one-thread result of the same configuration",
    )
}

pub fn replay(ctx: &Ctx, val: &Value) -> i32 {
    crate::multi::replay_real(ctx, val)
}

