//! Running the real solvers under a pinned sampling session and tying the implementation's draw
//! log to the reference's draw sites.
use crate::explore::{Draw, Pinned};
use crate::refcfr::{RefKey, RefMethod, RefParams, RefSite};
use crate::refmodel::Profile;
use crate::subject::{read_profile, G};
use crate::tree::Tree;
use cfr::verif::{DumpNode, Kind};
use cfr::{PlayerNum, RegretParams, SolveMethod};
use std::collections::BTreeMap;
use std::num::NonZeroUsize;
use std::sync::Arc;

pub fn to_method(m: RefMethod) -> SolveMethod {
    match m {
        RefMethod::Full => SolveMethod::Full,
        RefMethod::Sampled => SolveMethod::Sampled,
        RefMethod::External => SolveMethod::External,
    }
}

pub fn to_params(p: RefParams) -> RegretParams {
    RegretParams::new(p.a, p.b, p.g, p.w)
}

#[derive(Debug, Clone)]
pub struct ImplOut {
    pub avg: Profile,
    pub bounds: [f64; 2],
    pub raw: [Vec<f64>; 2],
}

/// Solve through the public entry point (target = None) or through the hook with an explicit task
/// target, with every sampling site attached to `decider`
#[allow(clippy::too_many_arguments)]
pub fn run_impl(
    tree: &Tree,
    game: &G,
    method: RefMethod,
    iters: u64,
    max_reg: f64,
    threads: usize,
    target: Option<usize>,
    params: Option<RegretParams>,
    decider: &Arc<Pinned>,
) -> Result<ImplOut, String> {
    let dec: Arc<dyn cfr::verif::Decider> = decider.clone();
    let res = cfr::verif::with_session(dec, || match target {
        None => game.solve(to_method(method), iters, max_reg, threads, params),
        Some(target) => cfr::verif::solve_with_target(
            game,
            to_method(method),
            iters,
            max_reg,
            NonZeroUsize::new(threads).unwrap(),
            NonZeroUsize::new(target).unwrap(),
            params,
        ),
    });
    let (strats, bound) = res.map_err(|e| format!("solve error {:?}", e))?;
    let raw = cfr::verif::raw_probs(&strats);
    Ok(ImplOut {
        avg: read_profile(tree, &strats)?,
        bounds: [bound.player_regret_bound(PlayerNum::One), bound.player_regret_bound(PlayerNum::Two)],
        raw: [raw[0].to_vec(), raw[1].to_vec()],
    })
}

/// How the implementation's infoset indices correspond to the tree's names
#[derive(Debug, Clone)]
pub struct Alignment {
    /// chance infoset index -> reference site name (None: never used by a node)
    pub chance: Vec<Option<String>>,
    pub chance_probs: Vec<Vec<f64>>,
    /// per player: infoset index -> name
    pub player: [Vec<String>; 2],
}

fn subtree_size(node: &Tree) -> usize {
    1 + node.children().iter().map(|c| subtree_size(c)).sum::<usize>()
}

fn align_rec(mut node: &Tree, mut index: usize, dump: &DumpNode, al: &mut Alignment) -> Result<(), String> {
    // the compact tree has no single-child nodes
    loop {
        let kids = node.children();
        if kids.len() == 1 {
            node = kids[0];
            index += 1;
        } else {
            break;
        }
    }
    match (node, dump) {
        (Tree::T(pay), DumpNode::Terminal(got)) => {
            if pay.to_bits() != got.to_bits() {
                return Err(format!("compact tree has payoff {} where the tree has {}", got, pay));
            }
            Ok(())
        }
        (Tree::C(info, outs), DumpNode::Chance(ind, kids)) => {
            if outs.len() != kids.len() {
                return Err("compact chance node has a different number of outcomes".into());
            }
            let name = match info {
                Some(label) => label.clone(),
                None => format!("#{}", index),
            };
            match &al.chance[*ind] {
                Some(prev) if *prev != name => return Err(format!("chance infoset {} used for {} and {}", ind, prev, name)),
                _ => al.chance[*ind] = Some(name),
            }
            let mut child_index = index + 1;
            for ((_, next), kid) in outs.iter().zip(kids.iter()) {
                align_rec(next, child_index, kid, al)?;
                child_index += subtree_size(next);
            }
            Ok(())
        }
        (Tree::P(pl, name, acts), DumpNode::Player(num, ind, kids)) => {
            let num = if *num == PlayerNum::One { 0 } else { 1 };
            if num != *pl || acts.len() != kids.len() {
                return Err("compact player node differs in player or number of actions".into());
            }
            if al.player[num].get(*ind) != Some(name) {
                return Err(format!("player {} infoset index {} is not {}", num + 1, ind, name));
            }
            let mut child_index = index + 1;
            for ((_, next), kid) in acts.iter().zip(kids.iter()) {
                align_rec(next, child_index, kid, al)?;
                child_index += subtree_size(next);
            }
            Ok(())
        }
        _ => Err("compact tree has a different node kind".into()),
    }
}

pub fn align(tree: &Tree, game: &G) -> Result<Alignment, String> {
    let dump = cfr::verif::dump(game);
    let names = cfr::verif::infoset_names(game);
    let mut al = Alignment {
        chance: vec![None; dump.chance_probs.len()],
        chance_probs: dump.chance_probs.clone(),
        player: [0, 1].map(|pl| names[pl].iter().map(|(n, _)| (*n).clone()).collect()),
    };
    align_rec(tree, 0, &dump.root, &mut al)?;
    Ok(al)
}

/// Translate an implementation draw key into the reference's (site, iteration, phase)
pub fn translate(al: &Alignment, method: RefMethod, draw: &Draw) -> Result<RefKey, String> {
    let key = draw.key;
    match key.kind {
        Kind::Chance => {
            let name = al
                .chance
                .get(key.id)
                .cloned()
                .flatten()
                .ok_or_else(|| format!("draw at chance infoset {} which no node uses", key.id))?;
            match method {
                RefMethod::Full => Err("the unsampled method drew at a chance infoset".into()),
                RefMethod::Sampled => Ok(RefKey { site: RefSite::Chance(name), iter: key.pass + 1, phase: 0 }),
                RefMethod::External => Ok(RefKey { site: RefSite::Chance(name), iter: key.pass / 2 + 1, phase: (key.pass % 2) as u8 }),
            }
        }
        Kind::Player => {
            if method != RefMethod::External {
                return Err(format!("{:?} sampled a player action", method));
            }
            let n1 = al.player[0].len();
            if key.id < n1 {
                if key.pass == 0 {
                    return Err("player one's action sampled before player one's first update".into());
                }
                Ok(RefKey { site: RefSite::Player(0, al.player[0][key.id].clone()), iter: key.pass, phase: 1 })
            } else {
                let name = al.player[1].get(key.id - n1).cloned().ok_or_else(|| format!("player site {} out of range", key.id))?;
                Ok(RefKey { site: RefSite::Player(1, name), iter: key.pass + 1, phase: 0 })
            }
        }
    }
}

/// The implementation's decisions in the reference's coordinates; Err on a second draw for a key
pub fn translate_log(al: &Alignment, method: RefMethod, log: &[Draw]) -> Result<BTreeMap<RefKey, (Vec<f64>, usize)>, String> {
    let mut res = BTreeMap::new();
    for draw in log {
        let key = translate(al, method, draw)?;
        if res.insert(key.clone(), (draw.weights.clone(), draw.result)).is_some() {
            return Err(format!("more than one draw for {:?}", key));
        }
    }
    Ok(res)
}
