//! Textbook discounted CFR (vanilla / chance-sampled / external-sampled) over *named* infosets on
//! the *uncollapsed* tree: the executable specification C08 compares the solvers with.
//!
//! Written from the statement of C08 and the cited papers, not from /repo:
//!   * regrets: after iteration t, positive cumulative regrets are multiplied by t^a/(t^a+1),
//!     negative ones by t^b/(t^b+1) (0, 1/2, 1 for an exponent of -inf, 0, +inf);
//!   * average strategy: iteration t contributes with weight t^g (accumulated directly as a
//!     weighted sum, not by progressive discounting);
//!   * next strategy: proportional to positive cumulative regret; if there is none, softmax of
//!     w * regret (uniform at w = 0, best / worst action at w = +-inf);
//!   * vanilla / chance-sampled: simultaneous update of both players, own-reach weighted average,
//!     counterfactual (opponent x chance) reach weighted regrets; chance-sampled follows one sampled
//!     outcome per chance infoset per iteration with sampled reach one;
//!   * external-sampled (Lanctot et al. 2009): per iteration one pass per player; the updating
//!     player explores all actions and adds unweighted regrets, the other player's infosets add
//!     their current strategy to their average and follow one sampled action per infoset per
//!     iteration, chance follows one sampled outcome per infoset per pass.
use crate::refmodel::Profile;
use crate::tree::Tree;
use std::collections::BTreeMap;

#[derive(Debug, Clone, Copy, PartialEq)]
pub struct RefParams {
    pub a: f64,
    pub b: f64,
    pub g: f64,
    pub w: f64,
}

impl RefParams {
    pub const VANILLA: RefParams = RefParams { a: f64::INFINITY, b: f64::INFINITY, g: 0.0, w: 0.0 };
    pub const LCFR: RefParams = RefParams { a: 1.0, b: 1.0, g: 1.0, w: f64::INFINITY };
    pub const CFR_PLUS: RefParams = RefParams { a: f64::INFINITY, b: f64::NEG_INFINITY, g: 2.0, w: f64::INFINITY };
    pub const DCFR: RefParams = RefParams { a: 1.5, b: 0.0, g: 2.0, w: f64::INFINITY };
    pub const DCFR_PRUNE: RefParams = RefParams { a: 1.5, b: 0.5, g: 2.0, w: f64::INFINITY };
}

#[derive(Debug, Clone, Copy, PartialEq, Eq, PartialOrd, Ord)]
pub enum RefMethod {
    Full,
    Sampled,
    External,
}

/// Where the reference needs a random draw
#[derive(Debug, Clone, PartialEq, Eq, PartialOrd, Ord)]
pub enum RefSite {
    /// chance infoset (label, or "#<preorder index>" for an unlabelled node)
    Chance(String),
    /// infoset of the non-updating player
    Player(usize, String),
}

#[derive(Debug, Clone, PartialEq, Eq, PartialOrd, Ord)]
pub struct RefKey {
    pub site: RefSite,
    /// iteration, 1-based
    pub iter: u64,
    /// 0: the (only) pass of vanilla / chance-sampled, or external's pass updating player one;
    /// 1: external's pass updating player two
    pub phase: u8,
}

#[derive(Debug, Clone)]
pub struct RefDraw {
    pub key: RefKey,
    pub weights: Vec<f64>,
    pub choice: usize,
}

#[derive(Debug, Clone, Default)]
pub struct Flags {
    /// an arg-max / arg-min fallback met an exact or near tie (tie-break is not specified)
    pub tie: bool,
    /// the positive-regret sum or the largest regret was within rounding of zero while regrets of
    /// non-negligible size had been accumulated (regret matching is discontinuous there)
    pub near_zero: bool,
}

impl Flags {
    pub fn any(&self) -> bool {
        self.tie || self.near_zero
    }
}

#[derive(Debug, Clone)]
struct Info {
    regret: Vec<f64>,
    /// sum over iterations of t^g * contribution
    avg: Vec<f64>,
    sigma: Vec<f64>,
    /// scale of what has been accumulated into `regret` (for the conditioning margin)
    scale: f64,
    /// per action: sum of the magnitudes added to its regret (to recognise cancellation to zero)
    mag: Vec<f64>,
}

#[derive(Debug, Clone)]
pub struct RefOut {
    /// normalised average strategy after each iteration 0..=T for infosets that were reached with
    /// positive own weight (others are absent: any distribution is acceptable there)
    pub snapshots: Vec<Profile>,
    /// documented bound 2 * sum_I max(max_a R, 0) / t per player after each iteration (index t)
    pub bounds: Vec<[f64; 2]>,
    pub draws: Vec<RefDraw>,
    pub flags: Flags,
    /// flags raised up to and including iteration t
    pub flags_at: Vec<Flags>,
}

pub fn discount_factor(t: u64, exponent: f64) -> f64 {
    if exponent == f64::NEG_INFINITY {
        0.0
    } else if exponent == 0.0 {
        0.5
    } else if exponent == f64::INFINITY {
        1.0
    } else {
        // t^e / (t^e + 1) written so that it neither overflows nor divides inf by inf
        1.0 / (1.0 + (t as f64).powf(-exponent))
    }
}

struct State<'a> {
    params: RefParams,
    infos: [BTreeMap<String, Info>; 2],
    draws: Vec<RefDraw>,
    /// (site, iter, phase) -> choice made earlier in the same pass (shared within an infoset)
    cache: BTreeMap<RefKey, usize>,
    decide: &'a mut dyn FnMut(&RefKey, &[f64]) -> Option<usize>,
    flags: Flags,
    error: Option<String>,
}

impl State<'_> {
    fn info(&mut self, pl: usize, name: &str, num: usize) -> &mut Info {
        self.infos[pl].entry(name.to_string()).or_insert_with(|| Info {
            regret: vec![0.0; num],
            avg: vec![0.0; num],
            sigma: vec![1.0 / num as f64; num],
            scale: 0.0,
            mag: vec![0.0; num],
        })
    }

    fn draw(&mut self, key: RefKey, weights: &[f64]) -> usize {
        if let Some(choice) = self.cache.get(&key) {
            return *choice;
        }
        let choice = match (self.decide)(&key, weights) {
            Some(choice) => choice,
            None => {
                if self.error.is_none() {
                    self.error = Some(format!("the specification draws at {:?} (weights {:?}) but no decision was recorded there", key, weights));
                }
                weights.iter().position(|w| *w > 0.0).unwrap_or(0)
            }
        };
        self.draws.push(RefDraw { key: key.clone(), weights: weights.to_vec(), choice });
        self.cache.insert(key, choice);
        choice
    }
}

fn chance_site(info: &Option<String>, preorder: usize) -> String {
    match info {
        Some(label) => label.clone(),
        None => format!("#{}", preorder),
    }
}

/// number of nodes in the subtree (to keep preorder indices in step)
fn size(node: &Tree) -> usize {
    1 + node.children().iter().map(|c| size(c)).sum::<usize>()
}

fn walk_vanilla(node: &Tree, index: usize, p_chance: f64, reach: [f64; 2], st: &mut State, t: u64, sampled: bool) -> f64 {
    match node {
        Tree::T(pay) => *pay,
        Tree::C(info, outs) => {
            if outs.len() == 1 {
                return walk_vanilla(&outs[0].1, index + 1, p_chance, reach, st, t, sampled);
            }
            let total: f64 = outs.iter().map(|(w, _)| w).sum();
            let probs: Vec<f64> = outs.iter().map(|(w, _)| w / total).collect();
            let mut child_index = index + 1;
            if sampled {
                let key = RefKey { site: RefSite::Chance(chance_site(info, index)), iter: t, phase: 0 };
                let choice = st.draw(key, &probs);
                for (_, next) in outs.iter().take(choice) {
                    child_index += size(next);
                }
                walk_vanilla(&outs[choice].1, child_index, p_chance, reach, st, t, sampled)
            } else {
                let mut expected = 0.0;
                for ((_, next), prob) in outs.iter().zip(probs.iter()) {
                    expected += prob * walk_vanilla(next, child_index, p_chance * prob, reach, st, t, sampled);
                    child_index += size(next);
                }
                expected
            }
        }
        Tree::P(pl, name, acts) => {
            if acts.len() == 1 {
                return walk_vanilla(&acts[0].1, index + 1, p_chance, reach, st, t, sampled);
            }
            let weight = (t as f64).powf(st.params.g);
            let sigma = {
                let own = reach[*pl];
                let info = st.info(*pl, name, acts.len());
                for (avg, s) in info.avg.iter_mut().zip(info.sigma.iter()) {
                    *avg += weight * own * s;
                }
                info.sigma.clone()
            };
            let mut utils = Vec::with_capacity(acts.len());
            let mut child_index = index + 1;
            for ((_, next), s) in acts.iter().zip(sigma.iter()) {
                let mut next_reach = reach;
                next_reach[*pl] *= s;
                utils.push(walk_vanilla(next, child_index, p_chance, next_reach, st, t, sampled));
                child_index += size(next);
            }
            let expected: f64 = utils.iter().zip(sigma.iter()).map(|(u, s)| u * s).sum();
            // counterfactual reach: chance and the opponent; player two's utility is the negation
            let cf = p_chance * reach[1 - *pl];
            let sign = if *pl == 0 { 1.0 } else { -1.0 };
            let info = st.info(*pl, name, acts.len());
            for (ind, (reg, u)) in info.regret.iter_mut().zip(utils.iter()).enumerate() {
                *reg += sign * cf * (u - expected);
                info.scale += (cf * u).abs() + (cf * expected).abs();
                info.mag[ind] += (cf * (u - expected)).abs();
            }
            expected
        }
    }
}

/// external sampling pass that updates `upd`; returns the utility to `upd`
fn walk_external(node: &Tree, index: usize, upd: usize, st: &mut State, t: u64) -> f64 {
    let phase = upd as u8;
    match node {
        Tree::T(pay) => {
            if upd == 0 {
                *pay
            } else {
                -*pay
            }
        }
        Tree::C(info, outs) => {
            if outs.len() == 1 {
                return walk_external(&outs[0].1, index + 1, upd, st, t);
            }
            let total: f64 = outs.iter().map(|(w, _)| w).sum();
            let probs: Vec<f64> = outs.iter().map(|(w, _)| w / total).collect();
            let key = RefKey { site: RefSite::Chance(chance_site(info, index)), iter: t, phase };
            let choice = st.draw(key, &probs);
            let mut child_index = index + 1;
            for (_, next) in outs.iter().take(choice) {
                child_index += size(next);
            }
            walk_external(&outs[choice].1, child_index, upd, st, t)
        }
        Tree::P(pl, name, acts) => {
            if acts.len() == 1 {
                return walk_external(&acts[0].1, index + 1, upd, st, t);
            }
            if *pl == upd {
                let sigma = st.info(*pl, name, acts.len()).sigma.clone();
                let mut utils = Vec::with_capacity(acts.len());
                let mut child_index = index + 1;
                for (_, next) in acts.iter() {
                    utils.push(walk_external(next, child_index, upd, st, t));
                    child_index += size(next);
                }
                let expected: f64 = utils.iter().zip(sigma.iter()).map(|(u, s)| u * s).sum();
                let info = st.info(*pl, name, acts.len());
                for (ind, (reg, u)) in info.regret.iter_mut().zip(utils.iter()).enumerate() {
                    *reg += u - expected;
                    info.scale += u.abs() + expected.abs();
                    info.mag[ind] += (u - expected).abs();
                }
                expected
            } else {
                let weight = (t as f64).powf(st.params.g);
                let sigma = {
                    let info = st.info(*pl, name, acts.len());
                    for (avg, s) in info.avg.iter_mut().zip(info.sigma.iter()) {
                        *avg += weight * s;
                    }
                    info.sigma.clone()
                };
                let key = RefKey { site: RefSite::Player(*pl, name.clone()), iter: t, phase };
                let choice = st.draw(key, &sigma);
                let mut child_index = index + 1;
                for (_, next) in acts.iter().take(choice) {
                    child_index += size(next);
                }
                walk_external(&acts[choice].1, child_index, upd, st, t)
            }
        }
    }
}

fn regret_match(info: &mut Info, w: f64, flags: &mut Flags) {
    let pos: f64 = info.regret.iter().filter(|r| **r > 0.0).sum();
    let max = info.regret.iter().copied().fold(f64::NEG_INFINITY, f64::max);
    let margin = 1e-9 * info.scale;
    if info.scale > 0.0 && ((pos > 0.0 && pos <= margin) || (pos == 0.0 && max >= -margin)) {
        flags.near_zero = true;
    }
    // one action's regret cancelled to (nearly) zero: its probability is 0 here and ~1e-17 in an
    // implementation that rounds differently, which a scale-free regret matching further down the
    // tree turns into a macroscopic difference
    if info.regret.iter().zip(info.mag.iter()).any(|(r, m)| *m > 0.0 && r.abs() <= 1e-9 * m) {
        flags.near_zero = true;
    }
    let num = info.regret.len();
    if pos > 0.0 {
        for (s, r) in info.sigma.iter_mut().zip(info.regret.iter()) {
            *s = if *r > 0.0 { r / pos } else { 0.0 };
        }
    } else if w == 0.0 {
        info.sigma.fill(1.0 / num as f64);
    } else if w.is_infinite() {
        // best (w = +inf) or worst (w = -inf) action; the tie-break is not part of the statement
        let key = |r: f64| if w > 0.0 { r } else { -r };
        let best = info.regret.iter().copied().map(key).fold(f64::NEG_INFINITY, f64::max);
        let tol = 1e-9 * f64::max(info.scale, 1e-300);
        let tied: Vec<usize> = (0..num).filter(|i| best - key(info.regret[*i]) <= tol).collect();
        if tied.len() > 1 {
            flags.tie = true;
        }
        // convention on ties: the last best action for +inf, the first worst for -inf
        let exact: Vec<usize> = (0..num).filter(|i| key(info.regret[*i]) == best).collect();
        let pick = if w > 0.0 { *exact.last().unwrap() } else { exact[0] };
        info.sigma.fill(0.0);
        info.sigma[pick] = 1.0;
    } else {
        let scaled: Vec<f64> = info.regret.iter().map(|r| r * w).collect();
        let top = scaled.iter().copied().fold(f64::NEG_INFINITY, f64::max);
        let exps: Vec<f64> = scaled.iter().map(|x| (x - top).exp()).collect();
        let total: f64 = exps.iter().sum();
        for (s, e) in info.sigma.iter_mut().zip(exps.iter()) {
            *s = e / total;
        }
    }
}

fn advance(st: &mut State, pl: usize, t: u64) -> f64 {
    let (a, b, w) = (st.params.a, st.params.b, st.params.w);
    let mut flags = std::mem::take(&mut st.flags);
    let mut bound = 0.0;
    for info in st.infos[pl].values_mut() {
        regret_match(info, w, &mut flags);
        let (dp, dn) = (discount_factor(t, a), discount_factor(t, b));
        for (r, m) in info.regret.iter_mut().zip(info.mag.iter_mut()) {
            let factor = if *r > 0.0 {
                dp
            } else if *r < 0.0 {
                dn
            } else {
                1.0
            };
            *r *= factor;
            // a regret forgotten completely (factor 0) is an exact zero in every implementation,
            // not a cancellation
            *m *= factor;
        }
        let max = info.regret.iter().copied().fold(0.0, f64::max);
        bound += 2.0 * max / t as f64;
    }
    st.flags = flags;
    bound
}

fn snapshot(st: &State) -> Profile {
    [0, 1].map(|pl| {
        st.infos[pl]
            .iter()
            .filter_map(|(name, info)| {
                let total: f64 = info.avg.iter().sum();
                if total > 0.0 {
                    Some((name.clone(), info.avg.iter().map(|v| v / total).collect()))
                } else {
                    None
                }
            })
            .collect()
    })
}

fn register(node: &Tree, st: &mut State) {
    node.walk(&mut |n| {
        if let Tree::P(pl, name, acts) = n {
            if acts.len() >= 2 {
                st.info(*pl, name, acts.len());
            }
        }
    });
}

pub fn ref_cfr(
    tree: &Tree,
    method: RefMethod,
    params: RefParams,
    iters: u64,
    decide: &mut dyn FnMut(&RefKey, &[f64]) -> Option<usize>,
) -> Result<RefOut, String> {
    let mut st = State {
        params,
        infos: [BTreeMap::new(), BTreeMap::new()],
        draws: Vec::new(),
        cache: BTreeMap::new(),
        decide,
        flags: Flags::default(),
        error: None,
    };
    register(tree, &mut st);
    let mut snapshots = vec![snapshot(&st)];
    let mut bounds = vec![[f64::INFINITY; 2]];
    let mut flags_at = vec![Flags::default()];
    for t in 1..=iters {
        let bound = match method {
            RefMethod::Full | RefMethod::Sampled => {
                walk_vanilla(tree, 0, 1.0, [1.0; 2], &mut st, t, method == RefMethod::Sampled);
                [advance(&mut st, 0, t), advance(&mut st, 1, t)]
            }
            RefMethod::External => {
                walk_external(tree, 0, 0, &mut st, t);
                let one = advance(&mut st, 0, t);
                walk_external(tree, 0, 1, &mut st, t);
                let two = advance(&mut st, 1, t);
                [one, two]
            }
        };
        st.cache.clear();
        if let Some(err) = st.error.take() {
            return Err(err);
        }
        snapshots.push(snapshot(&st));
        bounds.push(bound);
        flags_at.push(st.flags.clone());
    }
    Ok(RefOut {
        snapshots,
        bounds,
        draws: st.draws,
        flags: st.flags,
        flags_at,
    })
}
