//! E-CHOICE: stateless depth-first exploration of sampling decisions on the real solvers.
//!
//! The sampling hook (cfr::verif) asks a `Decider` before every production draw. `Pinned` answers
//! from a script keyed by (kind, infoset, pass) and falls back to a default policy; every draw is
//! logged with the weights that were presented to the production sampler, the index that was asked
//! for and the index the production sampler actually returned.
use cfr::verif::{Decider, Key, Kind};
use std::collections::BTreeMap;
use std::sync::{Arc, Mutex};

#[derive(Debug, Clone, PartialEq)]
pub struct Draw {
    pub key: Key,
    pub weights: Vec<f64>,
    pub intended: Option<usize>,
    pub result: usize,
}

#[derive(Debug, Clone, Copy, PartialEq)]
pub enum Fallback {
    /// first index whose weight exceeds SUPPORT_EPS (the "default environment answer")
    First,
    /// inverse CDF at a hash of (seed, key): a pinned pseudo-random history
    Hash(u64),
    /// do not steer: let the production generator draw (observer mode)
    Free,
}

/// outcomes with a weight at or below this are not explored (their mass is accounted for)
pub const SUPPORT_EPS: f64 = 1e-9;

pub struct Pinned {
    script: BTreeMap<Key, usize>,
    fallback: Fallback,
    log: Mutex<Vec<Draw>>,
    errors: Mutex<Vec<String>>,
}

pub fn mix(mut x: u64) -> u64 {
    x = x.wrapping_add(0x9E37_79B9_7F4A_7C15);
    x = (x ^ (x >> 30)).wrapping_mul(0xBF58_476D_1CE4_E5B9);
    x = (x ^ (x >> 27)).wrapping_mul(0x94D0_49BB_1331_11EB);
    x ^ (x >> 31)
}

pub fn key_hash(seed: u64, key: &Key) -> u64 {
    let kind = match key.kind {
        Kind::Chance => 1u64,
        Kind::Player => 2u64,
    };
    mix(mix(mix(seed ^ kind) ^ key.id as u64) ^ key.pass)
}

impl Pinned {
    pub fn new(script: BTreeMap<Key, usize>, fallback: Fallback) -> Arc<Pinned> {
        Arc::new(Pinned {
            script,
            fallback,
            log: Mutex::new(Vec::new()),
            errors: Mutex::new(Vec::new()),
        })
    }

    pub fn take_log(&self) -> Vec<Draw> {
        std::mem::take(&mut *self.log.lock().unwrap())
    }

    pub fn take_errors(&self) -> Vec<String> {
        std::mem::take(&mut *self.errors.lock().unwrap())
    }
}

impl Decider for Pinned {
    fn decide(&self, key: Key, weights: &[f64]) -> Option<usize> {
        if let Some(choice) = self.script.get(&key) {
            if *choice >= weights.len() || !(weights[*choice] > 0.0) {
                self.errors.lock().unwrap().push(format!(
                    "scripted choice {} for {:?} is not in the support of {:?}",
                    choice, key, weights
                ));
                return weights.iter().position(|w| *w > 0.0);
            }
            return Some(*choice);
        }
        match self.fallback {
            Fallback::Free => None,
            Fallback::First => weights
                .iter()
                .position(|w| *w > SUPPORT_EPS)
                .or_else(|| weights.iter().position(|w| *w > 0.0)),
            Fallback::Hash(seed) => {
                let total: f64 = weights.iter().filter(|w| **w > SUPPORT_EPS).sum();
                let unit = (key_hash(seed, &key) >> 11) as f64 / (1u64 << 53) as f64;
                let mut left = unit * total;
                let mut last = None;
                for (ind, w) in weights.iter().enumerate() {
                    if *w > SUPPORT_EPS {
                        last = Some(ind);
                        if left < *w {
                            return Some(ind);
                        }
                        left -= w;
                    }
                }
                last.or_else(|| weights.iter().position(|w| *w > 0.0))
            }
        }
    }

    fn observe(&self, key: Key, weights: &[f64], intended: Option<usize>, result: usize) {
        self.log.lock().unwrap().push(Draw {
            key,
            weights: weights.to_vec(),
            intended,
            result,
        });
    }
}

/// Probability of the history (product over draws of the normalised weight of the result)
pub fn history_probability(log: &[Draw]) -> f64 {
    log.iter()
        .map(|d| {
            let total: f64 = d.weights.iter().sum();
            d.weights[d.result] / total
        })
        .product()
}

pub struct ExploreStats {
    pub runs: u64,
    pub draws: u64,
    pub capped: bool,
    /// probability mass of outcomes not explored because their weight is <= SUPPORT_EPS
    pub skipped_mass: f64,
    pub max_depth: usize,
}

/// Depth-first enumeration of every draw history of `run`. `run` executes the subject once under
/// the given decider and returns whatever the visitor needs; it must be deterministic given the
/// script (the log order of a prefix is asserted to replay identically).
pub fn explore<R>(
    mut run: impl FnMut(&Arc<Pinned>) -> R,
    mut visit: impl FnMut(&[Draw], f64, R),
    max_runs: u64,
) -> Result<ExploreStats, String> {
    let mut stats = ExploreStats {
        runs: 0,
        draws: 0,
        capped: false,
        skipped_mass: 0.0,
        max_depth: 0,
    };
    let mut stack: Vec<Vec<(Key, usize)>> = vec![vec![]];
    while let Some(prefix) = stack.pop() {
        if stats.runs >= max_runs {
            stats.capped = true;
            break;
        }
        let script: BTreeMap<Key, usize> = prefix.iter().cloned().collect();
        let decider = Pinned::new(script, Fallback::First);
        let res = run(&decider);
        let log = decider.take_log();
        let errors = decider.take_errors();
        if let Some(err) = errors.first() {
            return Err(format!("explorer: {}", err));
        }
        stats.runs += 1;
        stats.draws += log.len() as u64;
        stats.max_depth = stats.max_depth.max(log.len());
        // the prefix must replay exactly
        for (pos, (key, choice)) in prefix.iter().enumerate() {
            match log.get(pos) {
                Some(d) if d.key == *key && d.intended == Some(*choice) => {}
                other => {
                    return Err(format!(
                        "explorer: divergence while replaying a prefix at position {}: scripted {:?}={} but saw {:?}",
                        pos, key, choice, other
                    ))
                }
            }
        }
        let prob = history_probability(&log);
        // push every unexplored sibling beyond the prefix
        for pos in (prefix.len()..log.len()).rev() {
            let draw = &log[pos];
            let total: f64 = draw.weights.iter().sum();
            for (alt, w) in draw.weights.iter().enumerate().rev() {
                if Some(alt) == draw.intended {
                    continue;
                }
                if *w > SUPPORT_EPS {
                    let mut next: Vec<(Key, usize)> = log[..pos]
                        .iter()
                        .map(|d| (d.key, d.intended.unwrap_or(d.result)))
                        .collect();
                    next.push((draw.key, alt));
                    stack.push(next);
                } else if *w > 0.0 {
                    let before: f64 = log[..pos]
                        .iter()
                        .map(|d| d.weights[d.result] / d.weights.iter().sum::<f64>())
                        .product();
                    stats.skipped_mass += before * w / total;
                }
            }
        }
        visit(&log, prob, res);
    }
    Ok(stats)
}

pub fn draws_json(log: &[Draw]) -> serde_json::Value {
    serde_json::json!(log
        .iter()
        .map(|d| serde_json::json!({
            "kind": format!("{:?}", d.key.kind),
            "id": d.key.id,
            "pass": d.key.pass,
            "weights": d.weights,
            "choice": d.intended.unwrap_or(d.result),
        }))
        .collect::<Vec<_>>())
}

pub fn script_from_json(val: &serde_json::Value) -> BTreeMap<Key, usize> {
    val.as_array()
        .map(|arr| {
            arr.iter()
                .map(|d| {
                    (
                        Key {
                            kind: if d["kind"].as_str() == Some("Chance") {
                                Kind::Chance
                            } else {
                                Kind::Player
                            },
                            id: d["id"].as_u64().unwrap() as usize,
                            pass: d["pass"].as_u64().unwrap(),
                        },
                        d["choice"].as_u64().unwrap() as usize,
                    )
                })
                .collect()
        })
        .unwrap_or_default()
}

pub fn script_of(log: &[Draw]) -> BTreeMap<Key, usize> {
    log.iter()
        .map(|d| (d.key, d.intended.unwrap_or(d.result)))
        .collect()
}
