//! Check context: counters, violation / known-finding reporting, replay files, evidence files.
use serde_json::{json, Map, Value};
use std::cell::RefCell;
use std::collections::BTreeMap;
use std::panic::{self, AssertUnwindSafe};
use std::path::PathBuf;
use std::sync::atomic::{AtomicU64, Ordering};
use std::sync::Mutex;
use std::time::Instant;

#[derive(Debug, Clone, Copy, PartialEq, Eq)]
pub enum Tier {
    Quick,
    Thorough,
}

impl Tier {
    pub fn name(&self) -> &'static str {
        match self {
            Tier::Quick => "quick",
            Tier::Thorough => "thorough",
        }
    }
    pub fn thorough(&self) -> bool {
        *self == Tier::Thorough
    }
}

pub fn verif_root() -> PathBuf {
    std::env::var("VERIF_ROOT")
        .map(PathBuf::from)
        .unwrap_or_else(|_| PathBuf::from("/verif"))
}

#[derive(Debug, Clone)]
struct Known {
    property: String,
    status: String,
    class: String,
    what: String,
}

pub struct Ctx {
    pub prop: String,
    pub tier: Tier,
    pub seed: u64,
    start: Instant,
    pub evaluations: AtomicU64,
    pub states: AtomicU64,
    pub transitions: AtomicU64,
    pub validated: AtomicU64,
    pub nontrivial: AtomicU64,
    extra: Mutex<BTreeMap<String, Value>>,
    counters: Mutex<BTreeMap<String, u64>>,
    samples: Mutex<Vec<Value>>,
    violations: Mutex<BTreeMap<String, (u64, String)>>,
    pub stop: std::sync::atomic::AtomicBool,
    known_hits: Mutex<BTreeMap<String, u64>>,
    known: Vec<Known>,
    replay_count: AtomicU64,
    assumptions: Mutex<Vec<String>>,
    pub write_evidence: bool,
}

thread_local! {
    static LAST_PANIC: RefCell<Option<String>> = const { RefCell::new(None) };
    static QUIET: RefCell<bool> = const { RefCell::new(false) };
}

pub fn install_panic_hook() {
    let default = panic::take_hook();
    panic::set_hook(Box::new(move |info| {
        let msg = if let Some(s) = info.payload().downcast_ref::<&str>() {
            s.to_string()
        } else if let Some(s) = info.payload().downcast_ref::<String>() {
            s.clone()
        } else {
            "<non-string panic>".to_string()
        };
        let loc = info
            .location()
            .map(|l| format!(" at {}:{}", l.file(), l.line()))
            .unwrap_or_default();
        LAST_PANIC.with(|p| *p.borrow_mut() = Some(format!("{}{}", msg, loc)));
        if !QUIET.with(|q| *q.borrow()) {
            default(info);
        }
    }));
}

/// Run the subject inside catch_unwind, quietly; Err carries the panic message and location
pub fn guarded<R>(func: impl FnOnce() -> R) -> Result<R, String> {
    QUIET.with(|q| *q.borrow_mut() = true);
    let res = panic::catch_unwind(AssertUnwindSafe(func));
    QUIET.with(|q| *q.borrow_mut() = false);
    res.map_err(|_| {
        LAST_PANIC
            .with(|p| p.borrow_mut().take())
            .unwrap_or_else(|| "<panic>".to_string())
    })
}

impl Ctx {
    pub fn new(prop: &str, tier: Tier) -> Ctx {
        let seed = std::env::var("VERIF_SEED")
            .ok()
            .and_then(|s| s.parse().ok())
            .unwrap_or(0);
        let path = verif_root().join("known_findings.json");
        let mut known = Vec::new();
        if let Ok(text) = std::fs::read_to_string(&path) {
            let val: Value = serde_json::from_str(&text).expect("known_findings.json is valid json");
            for ent in val["findings"].as_array().cloned().unwrap_or_default() {
                known.push(Known {
                    property: ent["property"].as_str().unwrap_or("").to_string(),
                    status: ent["status"].as_str().unwrap_or("").to_string(),
                    class: ent["class"].as_str().unwrap_or("").to_string(),
                    what: ent["what"].as_str().unwrap_or("").to_string(),
                });
            }
        }
        Ctx {
            prop: prop.to_string(),
            tier,
            seed,
            start: Instant::now(),
            evaluations: AtomicU64::new(0),
            states: AtomicU64::new(0),
            transitions: AtomicU64::new(0),
            validated: AtomicU64::new(0),
            nontrivial: AtomicU64::new(0),
            extra: Mutex::new(BTreeMap::new()),
            counters: Mutex::new(BTreeMap::new()),
            samples: Mutex::new(Vec::new()),
            violations: Mutex::new(BTreeMap::new()),
            stop: std::sync::atomic::AtomicBool::new(false),
            known_hits: Mutex::new(BTreeMap::new()),
            known,
            replay_count: AtomicU64::new(0),
            assumptions: Mutex::new(Vec::new()),
            write_evidence: true,
        }
    }

    pub fn thorough(&self) -> bool {
        self.tier.thorough()
    }

    pub fn add(&self, counter: &AtomicU64, by: u64) {
        counter.fetch_add(by, Ordering::Relaxed);
    }

    /// one explored case: a state of the enumerated space, replayed through the implementation
    pub fn case(&self, transitions: u64, nontrivial: bool) {
        self.evaluations.fetch_add(1, Ordering::Relaxed);
        self.states.fetch_add(1, Ordering::Relaxed);
        self.validated.fetch_add(1, Ordering::Relaxed);
        self.transitions.fetch_add(transitions, Ordering::Relaxed);
        if nontrivial {
            self.nontrivial.fetch_add(1, Ordering::Relaxed);
        }
    }

    pub fn count(&self, name: &str, by: u64) {
        *self.counters.lock().unwrap().entry(name.to_string()).or_insert(0) += by;
    }

    pub fn counter(&self, name: &str) -> u64 {
        self.counters.lock().unwrap().get(name).copied().unwrap_or(0)
    }

    pub fn set(&self, name: &str, val: Value) {
        self.extra.lock().unwrap().insert(name.to_string(), val);
    }

    pub fn assume(&self, text: &str) {
        let mut list = self.assumptions.lock().unwrap();
        if !list.iter().any(|t| t == text) {
            list.push(text.to_string());
        }
    }

    /// keep up to 4 samples per label
    pub fn sample(&self, label: &str, val: Value) {
        let mut samples = self.samples.lock().unwrap();
        let have = samples
            .iter()
            .filter(|s| s["kind"].as_str() == Some(label))
            .count();
        if have < 3 {
            samples.push(json!({ "kind": label, "case": val }));
        }
    }

    pub fn num_violations(&self) -> u64 {
        self.violations.lock().unwrap().values().map(|(n, _)| *n).sum()
    }

    /// true once so many violations were found that enumerating further is pointless
    pub fn stopped(&self) -> bool {
        self.stop.load(Ordering::Relaxed)
    }

    /// Report a violation. `class` is the canonical identity of the failing witness (used to match
    /// known_findings.json), `what` a human description, `replay` the minimal case.
    pub fn violation(&self, class: &str, what: &str, replay: Value) {
        if let Some(known) = self
            .known
            .iter()
            .find(|k| k.property == self.prop && k.status == "open" && k.class == class)
        {
            let mut hits = self.known_hits.lock().unwrap();
            let ent = hits.entry(class.to_string()).or_insert(0);
            if *ent == 0 {
                println!("KNOWN-FINDING: property={} {} [{}]", self.prop, known.what, class);
            }
            *ent += 1;
            return;
        }
        let mut viols = self.violations.lock().unwrap();
        let num_classes = viols.len();
        let ent = viols.entry(class.to_string()).or_insert((0, what.to_string()));
        ent.0 += 1;
        let total: u64 = ent.0;
        if total >= 2000 {
            self.stop.store(true, Ordering::Relaxed);
        }
        if total > 2 || num_classes > 40 {
            return; // already reported this class with replay files; still counted
        }
        let num = self.replay_count.fetch_add(1, Ordering::Relaxed);
        let dir = verif_root().join("replays").join(&self.prop);
        let _ = std::fs::create_dir_all(&dir);
        let path = dir.join(format!("{}-{}-{}.json", self.tier.name(), sanitize(class), num));
        let body = json!({
            "property": self.prop,
            "class": class,
            "what": what,
            "replay": replay,
        });
        let _ = std::fs::write(&path, serde_json::to_string_pretty(&body).unwrap());
        println!("VIOLATION property={} replay={}", self.prop, path.display());
        println!("  class={} :: {}", class, what);
    }

    /// Write the evidence file and return the process exit code
    pub fn finish(&self, rule: &str, exhaustive: bool, explanation: &str) -> i32 {
        let viols = self.violations.lock().unwrap();
        let mut coverage = Map::new();
        let ld = |a: &AtomicU64| a.load(Ordering::Relaxed);
        coverage.insert("evaluations".into(), json!(ld(&self.evaluations)));
        coverage.insert("distinct_nontrivial".into(), json!(ld(&self.nontrivial)));
        coverage.insert("rule".into(), json!(rule));
        coverage.insert("states".into(), json!(ld(&self.states)));
        coverage.insert("transitions".into(), json!(ld(&self.transitions)));
        coverage.insert(
            "traces_validated_against_impl".into(),
            json!(ld(&self.validated)),
        );
        coverage.insert("exhaustive".into(), json!(exhaustive));
        coverage.insert("explanation".into(), json!(explanation));
        coverage.insert("samples".into(), json!(*self.samples.lock().unwrap()));
        for (k, v) in self.counters.lock().unwrap().iter() {
            coverage.insert(k.clone(), json!(v));
        }
        for (k, v) in self.extra.lock().unwrap().iter() {
            coverage.insert(k.clone(), v.clone());
        }
        let known_hits = self.known_hits.lock().unwrap();
        if !known_hits.is_empty() {
            coverage.insert("known_findings_hit".into(), json!(*known_hits));
        }
        let classes: BTreeMap<String, u64> = viols.iter().map(|(c, (n, _))| (c.clone(), *n)).collect();
        let num_viols: u64 = classes.values().sum();
        if !classes.is_empty() {
            coverage.insert("violation_classes".into(), json!(classes));
        }
        let wall = self.start.elapsed().as_secs_f64();
        let evidence = json!({
            "property_id": self.prop,
            "tier": self.tier.name(),
            "seed": self.seed,
            "level": "model_checking",
            "coverage": coverage,
            "assumptions": *self.assumptions.lock().unwrap(),
            "wall_s": wall,
            "violations": num_viols,
        });
        if self.write_evidence {
            let dir = verif_root().join("evidence");
            let _ = std::fs::create_dir_all(&dir);
            let path = dir.join(format!("{}.json", self.prop));
            std::fs::write(&path, serde_json::to_string_pretty(&evidence).unwrap())
                .expect("write evidence");
        }
        println!(
            "{} tier={} states={} transitions={} validated={} nontrivial={} violations={} known_hits={} wall={:.1}s",
            self.prop,
            self.tier.name(),
            ld(&self.states),
            ld(&self.transitions),
            ld(&self.validated),
            ld(&self.nontrivial),
            num_viols,
            known_hits.values().sum::<u64>(),
            wall
        );
        for (k, v) in self.counters.lock().unwrap().iter() {
            println!("  {} = {}", k, v);
        }
        if viols.is_empty() {
            0
        } else {
            for (class, n) in classes {
                println!("  violation class {} x{}", class, n);
            }
            1
        }
    }
}

fn sanitize(s: &str) -> String {
    s.chars()
        .map(|c| if c.is_ascii_alphanumeric() { c } else { '_' })
        .take(40)
        .collect()
}

/// relative-or-absolute closeness
pub fn close(a: f64, b: f64, tol: f64) -> bool {
    if a == b {
        return true;
    }
    if a.is_nan() || b.is_nan() {
        return false;
    }
    if a.is_infinite() || b.is_infinite() {
        return false;
    }
    (a - b).abs() <= tol * f64::max(1.0, f64::max(a.abs(), b.abs()))
}

pub fn close_slice(a: &[f64], b: &[f64], tol: f64) -> bool {
    a.len() == b.len() && a.iter().zip(b.iter()).all(|(x, y)| close(*x, *y, tol))
}

/// Plain OS-thread parallel for-each (an atomic cursor over `items`). Used instead of rayon wherever
/// the body calls the multi-threaded solvers: a rayon worker that blocks on another pool keeps
/// stealing jobs of its own pool, which nests solves and deadlocks on any lock the body holds.
pub fn par_for_each<T: Sync>(items: &[T], threads: usize, body: impl Fn(usize, &T) + Sync) {
    let next = std::sync::atomic::AtomicUsize::new(0);
    std::thread::scope(|scope| {
        for _ in 0..threads.max(1) {
            scope.spawn(|| loop {
                let ind = next.fetch_add(1, Ordering::Relaxed);
                if ind >= items.len() {
                    break;
                }
                body(ind, &items[ind]);
            });
        }
    });
}

type Job = Box<dyn FnOnce() + Send>;

thread_local! {
    static DEADLINE_WORKER: RefCell<Option<std::sync::mpsc::Sender<Job>>> = const { RefCell::new(None) };
}

fn deadline_worker() -> std::sync::mpsc::Sender<Job> {
    let (tx, rx) = std::sync::mpsc::channel::<Job>();
    std::thread::spawn(move || {
        while let Ok(job) = rx.recv() {
            let _ = panic::catch_unwind(AssertUnwindSafe(job));
        }
    });
    tx
}

/// Runs `func` on this thread's helper thread and waits at most `secs` seconds for it: None when it
/// has not returned by then (the helper is abandoned with the call still running and the next call
/// gets a new one). One long-lived helper per calling thread: creating a thread per call is far too
/// slow on this machine.
pub fn with_deadline<R: Send + 'static>(secs: u64, func: impl FnOnce() -> R + Send + 'static) -> Option<R> {
    let (rtx, rrx) = std::sync::mpsc::channel();
    let mut job: Option<Job> = Some(Box::new(move || {
        let _ = rtx.send(func());
    }));
    DEADLINE_WORKER.with(|cell| {
        let mut slot = cell.borrow_mut();
        for _ in 0..2 {
            let tx = slot.get_or_insert_with(deadline_worker);
            match tx.send(job.take().unwrap()) {
                Ok(()) => break,
                Err(back) => {
                    job = Some(back.0);
                    *slot = None;
                }
            }
        }
    });
    match rrx.recv_timeout(std::time::Duration::from_secs(secs)) {
        Ok(res) => Some(res),
        Err(std::sync::mpsc::RecvTimeoutError::Timeout) => {
            DEADLINE_WORKER.with(|cell| *cell.borrow_mut() = None);
            None
        }
        Err(std::sync::mpsc::RecvTimeoutError::Disconnected) => panic!("the deadline helper dropped a call (it panicked outside `guarded`)"),
    }
}
