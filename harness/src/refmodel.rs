//! Reference models, written from the documented contract / the textbook definitions, on the
//! *uncollapsed* tree with *named* infosets. Deliberately boring and exponential where that makes
//! them obviously right. No code is shared with /repo.
use crate::tree::Tree;
use std::collections::{BTreeMap, BTreeSet};

// ---------------------------------------------------------------------------------------------
// validity (C11)
// ---------------------------------------------------------------------------------------------

#[derive(Debug, Clone, Copy, PartialEq, Eq, PartialOrd, Ord, Hash)]
pub enum Rule {
    EmptyChance,
    NonPositiveChance,
    ProbabilitiesNotEqual,
    ImperfectRecall,
    EmptyPlayer,
    ActionsNotEqual,
    ActionsNotUnique,
    NonFinitePayoff,
}

impl Rule {
    pub fn name(&self) -> &'static str {
        match self {
            Rule::EmptyChance => "EmptyChance",
            Rule::NonPositiveChance => "NonPositiveChance",
            Rule::ProbabilitiesNotEqual => "ProbabilitiesNotEqual",
            Rule::ImperfectRecall => "ImperfectRecall",
            Rule::EmptyPlayer => "EmptyPlayer",
            Rule::ActionsNotEqual => "ActionsNotEqual",
            Rule::ActionsNotUnique => "ActionsNotUnique",
            Rule::NonFinitePayoff => "NonFinitePayoff",
        }
    }
}

type Experience = Vec<(String, String)>;

struct Validator<'a> {
    rules: BTreeSet<Rule>,
    chance: BTreeMap<&'a str, Vec<&'a [(f64, Tree)]>>,
    player: [BTreeMap<&'a str, Vec<(Vec<&'a str>, Experience)>>; 2],
}

impl<'a> Validator<'a> {
    fn visit(&mut self, node: &'a Tree, exp: &[Experience; 2]) {
        match node {
            Tree::T(pay) => {
                if !pay.is_finite() {
                    self.rules.insert(Rule::NonFinitePayoff);
                }
            }
            Tree::C(info, outs) => {
                if outs.is_empty() {
                    self.rules.insert(Rule::EmptyChance);
                }
                if outs.iter().any(|(w, _)| !(*w > 0.0 && w.is_finite())) {
                    self.rules.insert(Rule::NonPositiveChance);
                }
                if let Some(info) = info {
                    self.chance.entry(info).or_default().push(outs);
                }
                for (_, next) in outs {
                    self.visit(next, exp);
                }
            }
            Tree::P(num, info, acts) => {
                if acts.is_empty() {
                    self.rules.insert(Rule::EmptyPlayer);
                }
                let names: Vec<&str> = acts.iter().map(|(a, _)| a.as_str()).collect();
                let distinct: BTreeSet<&str> = names.iter().copied().collect();
                if distinct.len() != names.len() {
                    self.rules.insert(Rule::ActionsNotUnique);
                }
                self.player[*num]
                    .entry(info)
                    .or_default()
                    .push((names, exp[*num].clone()));
                for (act, next) in acts {
                    if acts.len() >= 2 {
                        // a real decision: the player remembers having been here and what it did
                        let mut next_exp = exp.clone();
                        next_exp[*num].push((info.clone(), act.clone()));
                        self.visit(next, &next_exp);
                    } else {
                        self.visit(next, exp);
                    }
                }
            }
        }
    }
}

/// The set of documented rules the tree violates (empty = the tree is in the documented class)
pub fn ref_validate(tree: &Tree) -> BTreeSet<Rule> {
    let mut val = Validator {
        rules: BTreeSet::new(),
        chance: BTreeMap::new(),
        player: [BTreeMap::new(), BTreeMap::new()],
    };
    val.visit(tree, &[vec![], vec![]]);
    // chance nodes sharing an infoset: same number of outcomes, same probabilities in order
    for nodes in val.chance.values() {
        let valid: Vec<&&[(f64, Tree)]> = nodes
            .iter()
            .filter(|outs| !outs.is_empty() && outs.iter().all(|(w, _)| *w > 0.0 && w.is_finite()))
            .collect();
        for outs in valid.iter().skip(1) {
            let first = valid[0];
            if first.len() != outs.len() {
                val.rules.insert(Rule::ProbabilitiesNotEqual);
                continue;
            }
            // each node's weights are first scaled by an exact power of two so that the largest is
            // in [1, 2): sums and cross products then cannot overflow (weights near f64::MAX)
            let scaled = |node: &[(f64, Tree)]| -> Vec<f64> {
                let max = node.iter().map(|(w, _)| *w).fold(0.0, f64::max);
                let factor = 2f64.powi(-(max.log2().floor() as i32).clamp(-1000, 1000));
                node.iter().map(|(w, _)| w * factor).collect()
            };
            let (wa, wb) = (scaled(first), scaled(outs));
            let tot_a: f64 = wa.iter().sum();
            let tot_b: f64 = wb.iter().sum();
            // compared by cross multiplication; exact on the (small rational) alphabets in use
            if wa.iter().zip(wb.iter()).any(|(a, b)| a * tot_b != b * tot_a) {
                val.rules.insert(Rule::ProbabilitiesNotEqual);
            }
        }
    }
    for infos in val.player.iter() {
        for nodes in infos.values() {
            let (first_acts, _) = &nodes[0];
            if nodes.iter().any(|(acts, _)| acts != first_acts) {
                val.rules.insert(Rule::ActionsNotEqual);
            }
            // perfect recall: every node of a (multi-action) infoset has the same own experience
            let multi: Vec<&Experience> = nodes
                .iter()
                .filter(|(acts, _)| acts.len() >= 2)
                .map(|(_, exp)| exp)
                .collect();
            if multi.iter().any(|exp| *exp != multi[0]) {
                val.rules.insert(Rule::ImperfectRecall);
            }
        }
    }
    val.rules
}

// ---------------------------------------------------------------------------------------------
// structure of a valid tree
// ---------------------------------------------------------------------------------------------

#[derive(Debug, Clone, PartialEq)]
pub struct InfoDesc {
    pub name: String,
    pub actions: Vec<String>,
    pub num_nodes: usize,
}

/// Infosets of each player in first-appearance (preorder) order
pub fn infosets(tree: &Tree) -> [Vec<InfoDesc>; 2] {
    let mut res: [Vec<InfoDesc>; 2] = [vec![], vec![]];
    tree.walk(&mut |node| {
        if let Tree::P(num, info, acts) = node {
            if let Some(desc) = res[*num].iter_mut().find(|d| &d.name == info) {
                desc.num_nodes += 1;
            } else {
                res[*num].push(InfoDesc {
                    name: info.clone(),
                    actions: acts.iter().map(|(a, _)| a.clone()).collect(),
                    num_nodes: 1,
                });
            }
        }
    });
    res
}

/// A behavioural profile: (player, infoset name) -> probability per action (in the infoset's
/// action order). Single-action infosets may be absent (they are played with probability one).
pub type Profile = [BTreeMap<String, Vec<f64>>; 2];

pub fn uniform_profile(tree: &Tree) -> Profile {
    infosets(tree).map(|infos| {
        infos
            .into_iter()
            .map(|d| {
                let n = d.actions.len();
                (d.name, vec![1.0 / n as f64; n])
            })
            .collect()
    })
}

/// The profile in the shape `Game::from_named` takes (every infoset listed, also single-action)
pub fn profile_to_named(tree: &Tree, prof: &Profile) -> [Vec<(String, Vec<(String, f64)>)>; 2] {
    let infos = infosets(tree);
    [0, 1].map(|pl| {
        infos[pl]
            .iter()
            .map(|d| {
                let probs = prof[pl]
                    .get(&d.name)
                    .cloned()
                    .unwrap_or_else(|| vec![1.0; d.actions.len()]);
                (
                    d.name.clone(),
                    d.actions.iter().cloned().zip(probs).collect::<Vec<_>>(),
                )
            })
            .collect()
    })
}

// ---------------------------------------------------------------------------------------------
// evaluation (C01)
// ---------------------------------------------------------------------------------------------

fn prob_of(prof: &Profile, num: usize, info: &str, ind: usize, num_acts: usize) -> f64 {
    if num_acts == 1 {
        1.0
    } else {
        prof[num].get(info).map(|p| p[ind]).unwrap_or(1.0 / num_acts as f64)
    }
}

/// Expected payoff to player one under `prof`
pub fn ref_expected(tree: &Tree, prof: &Profile) -> f64 {
    match tree {
        Tree::T(pay) => *pay,
        Tree::C(_, outs) => {
            // weights near f64::MAX: scale by an exact power of two first so that the sum is finite
            let max = outs.iter().map(|(w, _)| *w).fold(0.0, f64::max);
            let factor = if max > 1e300 { 2f64.powi(-64) } else { 1.0 };
            let total: f64 = outs.iter().map(|(w, _)| w * factor).sum();
            outs.iter()
                .map(|(w, next)| w * factor / total * ref_expected(next, prof))
                .sum()
        }
        Tree::P(num, info, acts) => acts
            .iter()
            .enumerate()
            .map(|(ind, (_, next))| {
                let prob = prob_of(prof, *num, info, ind, acts.len());
                if prob > 0.0 {
                    prob * ref_expected(next, prof)
                } else {
                    0.0
                }
            })
            .sum(),
    }
}

/// Value to `dev` (in dev's own payoffs) of its best pure strategy against `prof`, by brute force
/// over all pure strategies of `dev`
pub fn ref_best_response(tree: &Tree, prof: &Profile, dev: usize) -> f64 {
    let infos: Vec<InfoDesc> = infosets(tree)[dev]
        .iter()
        .filter(|d| d.actions.len() >= 2)
        .cloned()
        .collect();
    let mut choice = vec![0usize; infos.len()];
    let mut best = f64::NEG_INFINITY;
    loop {
        let mut pure = prof.clone();
        for (d, ch) in infos.iter().zip(choice.iter()) {
            let mut probs = vec![0.0; d.actions.len()];
            probs[*ch] = 1.0;
            pure[dev].insert(d.name.clone(), probs);
        }
        let val = ref_expected(tree, &pure);
        let own = if dev == 0 { val } else { -val };
        if own > best {
            best = own;
        }
        // next pure strategy
        let mut pos = 0;
        loop {
            if pos == infos.len() {
                return best;
            }
            choice[pos] += 1;
            if choice[pos] < infos[pos].actions.len() {
                break;
            }
            choice[pos] = 0;
            pos += 1;
        }
    }
}

#[derive(Debug, Clone, Copy)]
pub struct RefEval {
    pub util: f64,
    pub regrets: [f64; 2],
}

impl RefEval {
    pub fn regret(&self) -> f64 {
        f64::max(self.regrets[0], self.regrets[1])
    }
}

pub fn ref_eval(tree: &Tree, prof: &Profile) -> RefEval {
    let util = ref_expected(tree, prof);
    let one = ref_best_response(tree, prof, 0);
    let two = ref_best_response(tree, prof, 1);
    RefEval {
        util,
        regrets: [f64::max(one - util, 0.0), f64::max(two + util, 0.0)],
    }
}

/// payoff range D, number of decision (multi-action) infosets N, max actions A
pub fn game_dims(tree: &Tree) -> (f64, usize, usize) {
    let pays = tree.payoffs();
    let max = pays.iter().copied().fold(f64::NEG_INFINITY, f64::max);
    let min = pays.iter().copied().fold(f64::INFINITY, f64::min);
    let infos = infosets(tree);
    let multi: Vec<&InfoDesc> = infos
        .iter()
        .flat_map(|i| i.iter())
        .filter(|d| d.actions.len() >= 2)
        .collect();
    (
        max - min,
        multi.len(),
        multi.iter().map(|d| d.actions.len()).max().unwrap_or(1),
    )
}

// ---------------------------------------------------------------------------------------------
// strategy import (C14)
// ---------------------------------------------------------------------------------------------

#[derive(Debug, Clone, Copy, PartialEq, Eq, PartialOrd, Ord, Hash)]
pub enum StratRule {
    InvalidInfoset,
    InvalidAction,
    InvalidProbability,
    UninitializedInfoset,
}

pub type NamedInput = Vec<(String, Vec<(String, f64)>)>;

/// The statement of C14 transcribed for one player: the set of violated rules, and the resulting
/// distribution per multi-action infoset when there is none.
pub fn ref_import_player(
    infos: &[InfoDesc],
    input: &NamedInput,
) -> Result<BTreeMap<String, Vec<f64>>, BTreeSet<StratRule>> {
    let mut rules = BTreeSet::new();
    let mut weights: BTreeMap<String, Vec<f64>> = infos
        .iter()
        .map(|d| (d.name.clone(), vec![0.0; d.actions.len()]))
        .collect();
    let mut covered: BTreeSet<String> = BTreeSet::new();
    for (info, acts) in input {
        match infos.iter().find(|d| &d.name == info) {
            None => {
                rules.insert(StratRule::InvalidInfoset);
            }
            Some(desc) => {
                for (act, weight) in acts {
                    let finite_nonneg = *weight >= 0.0 && weight.is_finite();
                    if !finite_nonneg {
                        rules.insert(StratRule::InvalidProbability);
                    }
                    match desc.actions.iter().position(|a| a == act) {
                        None => {
                            rules.insert(StratRule::InvalidAction);
                        }
                        Some(ind) => {
                            if finite_nonneg {
                                // a repeated infoset-action entry overrides the earlier one
                                weights.get_mut(info).unwrap()[ind] = *weight;
                                covered.insert(info.clone());
                            }
                        }
                    }
                }
            }
        }
    }
    let mut res = BTreeMap::new();
    for desc in infos {
        let vals = &weights[&desc.name];
        if desc.actions.len() >= 2 {
            let total: f64 = vals.iter().sum();
            if total > 0.0 {
                res.insert(desc.name.clone(), vals.iter().map(|v| v / total).collect());
            } else {
                rules.insert(StratRule::UninitializedInfoset);
            }
        } else if !covered.contains(&desc.name) {
            rules.insert(StratRule::UninitializedInfoset);
        }
    }
    if rules.is_empty() {
        Ok(res)
    } else {
        Err(rules)
    }
}
