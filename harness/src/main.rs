use vrt::checks;
use vrt::framework::{install_panic_hook, Ctx, Tier};

fn main() {
    let args: Vec<String> = std::env::args().collect();
    if args.len() < 2 {
        eprintln!("usage: vcheck <Cxx> [--tier quick|thorough] [--replay <file>]");
        std::process::exit(2);
    }
    let prop = args[1].clone();
    let mut tier = match std::env::var("VERIF_TIER").as_deref() {
        Ok("thorough") => Tier::Thorough,
        _ => Tier::Quick,
    };
    let mut replay: Option<String> = None;
    let mut ind = 2;
    while ind < args.len() {
        match args[ind].as_str() {
            "--tier" => {
                tier = if args[ind + 1] == "thorough" { Tier::Thorough } else { Tier::Quick };
                ind += 2;
            }
            "--replay" => {
                replay = Some(args[ind + 1].clone());
                ind += 2;
            }
            other => {
                eprintln!("unknown argument {}", other);
                std::process::exit(2);
            }
        }
    }
    install_panic_hook();
    let mut ctx = Ctx::new(&prop, tier);
    let code = if let Some(path) = replay {
        ctx.write_evidence = false;
        let text = std::fs::read_to_string(&path).expect("read replay file");
        let val: serde_json::Value = serde_json::from_str(&text).expect("replay json");
        let body = &val["replay"];
        match prop.as_str() {
            "C01" => checks::c01::replay(&ctx, body),
            "C11" => checks::c11::replay(&ctx, body),
            "C05" => checks::c05::replay(&ctx, body),
            "C06" => checks::c06::replay(&ctx, body),
            "C07" => checks::c07::replay(&ctx, body),
            "C10" => checks::c10::replay(&ctx, body),
            "C09" => checks::c09::replay(&ctx, body),
            "C08" => checks::c08::replay(&ctx, body),
            "C14" => checks::c14::replay(&ctx, body),
            "C13" => checks::c13::replay(&ctx, body),
            "C19" => checks::c19::replay(&ctx, body),
            "C18" => checks::c18::replay(&ctx, body),
            _ => {
                eprintln!("no replay for {}", prop);
                2
            }
        }
    } else {
        match prop.as_str() {
            "C01" => checks::c01::run(&ctx),
            "C11" => checks::c11::run(&ctx),
            "C05" => checks::c05::run(&ctx),
            "C06" => checks::c06::run(&ctx),
            "C07" => checks::c07::run(&ctx),
            "C10" => checks::c10::run(&ctx),
            "C09" => checks::c09::run(&ctx),
            "C08" => checks::c08::run(&ctx),
            "C14" => checks::c14::run(&ctx),
            "C13" => checks::c13::run(&ctx),
            "C19" => checks::c19::run(&ctx),
            "C18" => checks::c18::run(&ctx),
            "count" => {
                for (m, a, l) in [(2, 3, 9), (3, 2, 8), (3, 3, 5), (3, 3, 7), (4, 2, 5), (4, 3, 5), (4, 3, 7)] {
                    let b = vrt::universe::Bounds { max_internal: m, max_arity: a, max_leaves: l, chance_infosets: true, degenerate: true };
                    let t0 = std::time::Instant::now();
                    let sk = vrt::universe::skeletons(&b);
                    let games: u64 = sk.iter().map(|s| (vrt::universe::payoff_alphabet(s.num_leaves(), false).len() as u64).pow(s.num_leaves() as u32)).sum();
                    println!("M={} A={} L={} skeletons={} games(quick alphabet)={} ({:?})", m, a, l, sk.len(), games, t0.elapsed());
                }
                0
            }
            _ => {
                eprintln!("unknown property {}", prop);
                2
            }
        }
    };
    std::process::exit(code);
}
