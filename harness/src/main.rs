use vrt::checks;
use vrt::framework::{install_panic_hook, Ctx, Tier};

fn main() {
    let args: Vec<String> = std::env::args().collect();
    if args.len() < 2 {
        eprintln!("usage: vcheck <Cxx> [--tier quick|thorough] [--replay <file>]");
        std::process::exit(2);
    }
    let prop = args[1].clone();
    let mut tier = match std::env::var("VERIF_TIER").as_deref() {
        Ok("thorough") => Tier::Thorough,
        _ => Tier::Quick,
    };
    let mut replay: Option<String> = None;
    let mut ind = 2;
    while ind < args.len() {
        match args[ind].as_str() {
            "--tier" => {
                tier = if args[ind + 1] == "thorough" { Tier::Thorough } else { Tier::Quick };
                ind += 2;
            }
            "--replay" => {
                replay = Some(args[ind + 1].clone());
                ind += 2;
            }
            other => {
                eprintln!("unknown argument {}", other);
                std::process::exit(2);
            }
        }
    }
    install_panic_hook();
    let mut ctx = Ctx::new(&prop, tier);
    let code = if let Some(path) = replay {
        ctx.write_evidence = false;
        let text = std::fs::read_to_string(&path).expect("read replay file");
        let val: serde_json::Value = serde_json::from_str(&text).expect("replay json");
        let body = &val["replay"];
        match prop.as_str() {
            "C01" => checks::c01::replay(&ctx, body),
            "C11" => checks::c11::replay(&ctx, body),
            "C12" => checks::c12::replay(&ctx, body),
            "C02" => checks::c02::replay(&ctx, body),
            "C03" => checks::c03::replay(&ctx, body),
            "C04" => checks::c04::replay(&ctx, body),
            "C05" => checks::c05::replay(&ctx, body),
            "C06" => checks::c06::replay(&ctx, body),
            "C07" => checks::c07::replay(&ctx, body),
            "C10" => checks::c10::replay(&ctx, body),
            "C09" => checks::c09::replay(&ctx, body),
            "C08" => checks::c08::replay(&ctx, body),
            "C14" => checks::c14::replay(&ctx, body),
            "C15" => checks::c15::replay(&ctx, body),
            "C16" => checks::c16::replay(&ctx, body),
            "C17" => checks::c17::replay(&ctx, body),
            "C13" => checks::c13::replay(&ctx, body),
            "C19" => checks::c19::replay(&ctx, body),
            "C18" => checks::c18::replay(&ctx, body),
            _ => {
                eprintln!("no replay for {}", prop);
                2
            }
        }
    } else {
        match prop.as_str() {
            "C01" => checks::c01::run(&ctx),
            "C11" => checks::c11::run(&ctx),
            "C12" => checks::c12::run(&ctx),
            "C02" => checks::c02::run(&ctx),
            "C03" => checks::c03::run(&ctx),
            "C04" => checks::c04::run(&ctx),
            "C05" => checks::c05::run(&ctx),
            "C06" => checks::c06::run(&ctx),
            "C07" => checks::c07::run(&ctx),
            "C10" => checks::c10::run(&ctx),
            "C09" => checks::c09::run(&ctx),
            "C08" => checks::c08::run(&ctx),
            "C14" => checks::c14::run(&ctx),
            "C15" => checks::c15::run(&ctx),
            "C16" => checks::c16::run(&ctx),
            "C17" => checks::c17::run(&ctx),
            "C13" => checks::c13::run(&ctx),
            "C19" => checks::c19::run(&ctx),
            "C18" => checks::c18::run(&ctx),
            "loomcases" => {
                // debug aid: print the loom cases (every history) of one named collision / family game
                // usage: vcheck loomcases  with env GAME, METHOD, ITERS, TARGETS (comma separated)
                let name = std::env::var("GAME").unwrap_or("wide_shared_3".into());
                let method = checks::c08::method_from(&std::env::var("METHOD").unwrap_or("external".into()));
                let iters: u64 = std::env::var("ITERS").ok().and_then(|v| v.parse().ok()).unwrap_or(1);
                let targets: Vec<usize> = std::env::var("TARGETS").unwrap_or("2,3,4,5,6".into()).split(',').map(|t| t.parse().unwrap()).collect();
                let (_, tree) = checks::c06::collision_games().into_iter().chain(vrt::universe::families()).find(|(n, _)| *n == name).expect("game name");
                let game = vrt::subject::build(&tree).unwrap();
                let al = vrt::runner::align(&tree, &game).unwrap();
                let lb = vrt::multi::LoomBounds { pb3: Some(2), pb4: Some(1), max_permutations: 30_000, max_seconds: 40 };
                let spec = checks::c08::ParamSpec::Preset(0);
                if method == vrt::refcfr::RefMethod::Full {
                    let cfg = vrt::multi::Config { method, spec, iters, max_reg: 0.0, script: Default::default(), fallback: vrt::explore::Fallback::First };
                    let seq = vrt::multi::sequential(&tree, &game, &al, &cfg).unwrap();
                    println!("{}", vrt::multi::loom_case(0, &tree, &cfg, &seq, 2, &targets, true, &lb));
                } else {
                    let (hist, _) = checks::c07::histories(&ctx, &tree, &game, &al, method, spec, iters, 0.0, 64);
                    for (cfg, seq) in hist {
                        println!("{}", vrt::multi::loom_case(0, &tree, &cfg, &seq, 2, &targets, true, &lb));
                    }
                }
                0
            }
            "count" => {
                for (m, a, l) in [(2, 3, 9), (3, 2, 8), (3, 3, 5), (3, 3, 7), (4, 2, 5), (4, 3, 5), (4, 3, 7)] {
                    let b = vrt::universe::Bounds { max_internal: m, max_arity: a, max_leaves: l, chance_infosets: true, degenerate: true };
                    let t0 = std::time::Instant::now();
                    let sk = vrt::universe::skeletons(&b);
                    let games: u64 = sk.iter().map(|s| (vrt::universe::payoff_alphabet(s.num_leaves(), false).len() as u64).pow(s.num_leaves() as u32)).sum();
                    println!("M={} A={} L={} skeletons={} games(quick alphabet)={} ({:?})", m, a, l, sk.len(), games, t0.elapsed());
                }
                0
            }
            _ => {
                eprintln!("unknown property {}", prop);
                2
            }
        }
    };
    std::process::exit(code);
}
