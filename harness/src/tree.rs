//! The harness's own game-tree type (the "file-level" / uncollapsed tree) and its JSON-DSL form.
//!
//! This is the input language of every E-INPUT universe. It shares no code with /repo: the only
//! contact is `impl IntoGameNode for Tree`.
use cfr::{GameNode, IntoGameNode, PlayerNum};
use serde_json::{json, Map, Value};

#[derive(Debug, Clone, PartialEq)]
pub enum Tree {
    /// terminal with payoff to player one
    T(f64),
    /// chance node: optional infoset, (weight, child)
    C(Option<String>, Vec<(f64, Tree)>),
    /// player node: player index (0 / 1), infoset, (action, child)
    P(usize, String, Vec<(String, Tree)>),
}

impl IntoGameNode for Tree {
    type PlayerInfo = String;
    type Action = String;
    type ChanceInfo = String;
    type Outcomes = Vec<(f64, Tree)>;
    type Actions = Vec<(String, Tree)>;

    fn into_game_node(self) -> GameNode<Self> {
        match self {
            Tree::T(pay) => GameNode::Terminal(pay),
            Tree::C(info, outs) => GameNode::Chance(info, outs),
            Tree::P(num, info, acts) => GameNode::Player(
                if num == 0 {
                    PlayerNum::One
                } else {
                    PlayerNum::Two
                },
                info,
                acts,
            ),
        }
    }
}

pub fn pnum(ind: usize) -> PlayerNum {
    if ind == 0 {
        PlayerNum::One
    } else {
        PlayerNum::Two
    }
}

pub fn t(pay: f64) -> Tree {
    Tree::T(pay)
}

pub fn c(info: Option<&str>, outs: Vec<(f64, Tree)>) -> Tree {
    Tree::C(info.map(|s| s.to_string()), outs)
}

pub fn p(num: usize, info: &str, acts: Vec<(&str, Tree)>) -> Tree {
    Tree::P(
        num,
        info.to_string(),
        acts.into_iter().map(|(a, n)| (a.to_string(), n)).collect(),
    )
}

fn num_to_json(val: f64) -> Value {
    if val.is_finite() {
        json!(val)
    } else if val.is_nan() {
        json!("NaN")
    } else if val > 0.0 {
        json!("inf")
    } else {
        json!("-inf")
    }
}

fn num_from_json(val: &Value) -> f64 {
    match val {
        Value::String(s) if s == "NaN" => f64::NAN,
        Value::String(s) if s == "inf" => f64::INFINITY,
        Value::String(s) if s == "-inf" => f64::NEG_INFINITY,
        other => other.as_f64().expect("number"),
    }
}

impl Tree {
    /// Lossless replay form (keeps order, duplicate actions, non-finite numbers): arrays, not maps
    pub fn to_replay(&self) -> Value {
        match self {
            Tree::T(pay) => json!({ "t": num_to_json(*pay) }),
            Tree::C(info, outs) => json!({
                "c": info,
                "o": outs.iter().map(|(w, n)| json!([num_to_json(*w), n.to_replay()])).collect::<Vec<_>>(),
            }),
            Tree::P(num, info, acts) => json!({
                "p": num + 1,
                "i": info,
                "a": acts.iter().map(|(a, n)| json!([a, n.to_replay()])).collect::<Vec<_>>(),
            }),
        }
    }

    pub fn from_replay(val: &Value) -> Tree {
        if let Some(pay) = val.get("t") {
            Tree::T(num_from_json(pay))
        } else if let Some(outs) = val.get("o") {
            Tree::C(
                val.get("c").and_then(|c| c.as_str()).map(|s| s.to_string()),
                outs.as_array()
                    .unwrap()
                    .iter()
                    .map(|pair| (num_from_json(&pair[0]), Tree::from_replay(&pair[1])))
                    .collect(),
            )
        } else {
            Tree::P(
                val["p"].as_u64().unwrap() as usize - 1,
                val["i"].as_str().unwrap().to_string(),
                val["a"]
                    .as_array()
                    .unwrap()
                    .iter()
                    .map(|pair| {
                        (
                            pair[0].as_str().unwrap().to_string(),
                            Tree::from_replay(&pair[1]),
                        )
                    })
                    .collect(),
            )
        }
    }

    /// Compact one-line rendering for samples / messages
    pub fn show(&self) -> String {
        match self {
            Tree::T(pay) => format!("{}", pay),
            Tree::C(info, outs) => format!(
                "C{}[{}]",
                info.as_deref().map(|s| format!("<{}>", s)).unwrap_or_default(),
                outs.iter()
                    .map(|(w, n)| format!("{}:{}", w, n.show()))
                    .collect::<Vec<_>>()
                    .join(" ")
            ),
            Tree::P(num, info, acts) => format!(
                "P{}<{}>[{}]",
                num + 1,
                info,
                acts.iter()
                    .map(|(a, n)| format!("{}:{}", a, n.show()))
                    .collect::<Vec<_>>()
                    .join(" ")
            ),
        }
    }

    /// The README's JSON DSL (maps keyed by outcome / action name). Outcome names are `o<k>`
    /// (zero padded so that name order = list order). Returns None if the tree is not
    /// representable (duplicate action names at a node, or action order not name order).
    pub fn to_dsl(&self) -> Option<Value> {
        match self {
            Tree::T(pay) => Some(json!({ "terminal": pay })),
            Tree::C(info, outs) => {
                let mut map = Map::new();
                for (ind, (w, next)) in outs.iter().enumerate() {
                    map.insert(
                        format!("o{:02}", ind),
                        json!({ "prob": w, "state": next.to_dsl()? }),
                    );
                }
                let mut inner = Map::new();
                if let Some(info) = info {
                    inner.insert("infoset".into(), json!(info));
                }
                inner.insert("outcomes".into(), Value::Object(map));
                Some(json!({ "chance": inner }))
            }
            Tree::P(num, info, acts) => {
                let mut map = Map::new();
                let mut last: Option<&String> = None;
                for (act, next) in acts {
                    if let Some(prev) = last {
                        if prev >= act {
                            return None;
                        }
                    }
                    last = Some(act);
                    map.insert(act.clone(), next.to_dsl()?);
                }
                Some(json!({ "player": { "player_one": *num == 0, "infoset": info, "actions": map } }))
            }
        }
    }

    pub fn num_internal(&self) -> usize {
        match self {
            Tree::T(_) => 0,
            Tree::C(_, outs) => 1 + outs.iter().map(|(_, n)| n.num_internal()).sum::<usize>(),
            Tree::P(_, _, acts) => 1 + acts.iter().map(|(_, n)| n.num_internal()).sum::<usize>(),
        }
    }

    pub fn num_leaves(&self) -> usize {
        match self {
            Tree::T(_) => 1,
            Tree::C(_, outs) => outs.iter().map(|(_, n)| n.num_leaves()).sum::<usize>(),
            Tree::P(_, _, acts) => acts.iter().map(|(_, n)| n.num_leaves()).sum::<usize>(),
        }
    }

    pub fn children(&self) -> Vec<&Tree> {
        match self {
            Tree::T(_) => vec![],
            Tree::C(_, outs) => outs.iter().map(|(_, n)| n).collect(),
            Tree::P(_, _, acts) => acts.iter().map(|(_, n)| n).collect(),
        }
    }

    pub fn children_mut(&mut self) -> Vec<&mut Tree> {
        match self {
            Tree::T(_) => vec![],
            Tree::C(_, outs) => outs.iter_mut().map(|(_, n)| n).collect(),
            Tree::P(_, _, acts) => acts.iter_mut().map(|(_, n)| n).collect(),
        }
    }

    /// Visit every node in preorder
    pub fn walk<'a>(&'a self, func: &mut impl FnMut(&'a Tree)) {
        func(self);
        for child in self.children() {
            child.walk(func);
        }
    }

    /// Apply `func` to every node (preorder), allowing mutation
    pub fn walk_mut(&mut self, func: &mut impl FnMut(&mut Tree)) {
        func(self);
        for child in self.children_mut() {
            child.walk_mut(func);
        }
    }

    pub fn payoffs(&self) -> Vec<f64> {
        let mut res = Vec::new();
        self.walk(&mut |n| {
            if let Tree::T(pay) = n {
                res.push(*pay)
            }
        });
        res
    }
}
