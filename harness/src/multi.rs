//! Shared machinery of C06 / C07 (and the thread clause of C02): one-thread reference runs,
//! comparison of a multi-threaded run with it, and the orchestration of the loom workers
//! (E-SCHED, /verif/harness-loom) that explore every schedule of one case.
use crate::checks::c08::{method_name, ParamSpec};
use crate::explore::{draws_json, script_of, Draw, Fallback, Pinned};
use crate::framework::{close, guarded, verif_root, Ctx};
use crate::refcfr::{ref_cfr, RefMethod};
use crate::runner::{align, run_impl, translate_log, Alignment, ImplOut};
use crate::subject::G;
use crate::tree::Tree;
use cfr::verif::Key;
use serde_json::{json, Value};
use std::collections::{BTreeMap, BTreeSet};
use std::io::{BufRead, BufReader, Write};
use std::process::{Command, Stdio};
use std::sync::Mutex;

pub const TOL: f64 = 1e-9;

/// Building and tearing down a thread pool does not scale with concurrent callers on this box
/// (1 caller: ~60 us per solve; 2 callers: ~110 us each; 16 callers: ~400 us each), so
/// multi-threaded solves are issued one at a time while everything around them runs in parallel.
pub static POOL_GATE: Mutex<()> = Mutex::new(());

/// Run a multi-threaded solve one at a time and off the calling thread. The caller may be a rayon
/// worker: if it called the solver's own pool directly it would keep stealing jobs of its pool
/// while it waits (nesting solves); a plain join does not.
pub fn gated<R: Send>(func: impl FnOnce() -> R + Send) -> R {
    let _gate = POOL_GATE.lock().unwrap_or_else(|e| e.into_inner());
    std::thread::scope(|scope| match scope.spawn(func).join() {
        Ok(res) => res,
        Err(payload) => std::panic::resume_unwind(payload),
    })
}

fn num(x: f64) -> Value {
    if x.is_finite() {
        json!(x)
    } else {
        json!(format!("{}", x))
    }
}

/// One (game, configuration, pinned decisions) point at which "k threads == one thread" is decided
#[derive(Debug, Clone)]
pub struct Config {
    pub method: RefMethod,
    pub spec: ParamSpec,
    pub iters: u64,
    pub max_reg: f64,
    pub script: BTreeMap<Key, usize>,
    pub fallback: Fallback,
}

impl Config {
    pub fn to_json(&self, tree: &Tree) -> Value {
        let script: Vec<Value> = self.script.iter().map(|(k, c)| json!({"kind": format!("{:?}", k.kind), "id": k.id, "pass": k.pass, "choice": c})).collect();
        json!({
            "tree": tree.to_replay(),
            "method": method_name(self.method),
            "params": self.spec.to_json(),
            "iters": self.iters,
            "max_reg": num(self.max_reg),
            "script": script,
            "fallback": match self.fallback { Fallback::First => json!("first"), Fallback::Hash(s) => json!(s), Fallback::Free => json!("free") },
        })
    }

    pub fn from_json(val: &Value) -> (Tree, Config) {
        let f = |v: &Value| match v {
            Value::String(s) => s.parse::<f64>().unwrap(),
            o => o.as_f64().unwrap(),
        };
        (
            Tree::from_replay(&val["tree"]),
            Config {
                method: crate::checks::c08::method_from(val["method"].as_str().unwrap()),
                spec: ParamSpec::from_json(&val["params"]),
                iters: val["iters"].as_u64().unwrap(),
                max_reg: f(&val["max_reg"]),
                script: crate::explore::script_from_json(&val["script"]),
                fallback: match &val["fallback"] {
                    Value::String(_) => Fallback::First,
                    other => Fallback::Hash(other.as_u64().unwrap()),
                },
            },
        )
    }

    pub fn describe(&self, tree: &Tree) -> String {
        format!("[{} {} T={} r={}] on {}", method_name(self.method), self.spec.to_json(), self.iters, self.max_reg, tree.show())
    }
}

/// The one-thread run of a configuration: what every multi-threaded run must reproduce
#[derive(Debug, Clone)]
pub struct SeqRun {
    pub out: ImplOut,
    pub log: Vec<Draw>,
    /// the executable specification met a tie / near-zero regret sum under these decisions: regret
    /// matching is discontinuous there, a run that differs only by summation order may legitimately
    /// take the other branch
    pub flagged: bool,
}

pub fn sequential(tree: &Tree, game: &G, al: &Alignment, cfg: &Config) -> Result<SeqRun, String> {
    let decider = Pinned::new(cfg.script.clone(), cfg.fallback);
    let out = guarded(|| run_impl(tree, game, cfg.method, cfg.iters, cfg.max_reg, 1, None, cfg.spec.implementation(), &decider)).map_err(|m| format!("panic: {}", m))??;
    let log = decider.take_log();
    let decisions = translate_log(al, cfg.method, &log)?;
    let mut decide = |key: &crate::refcfr::RefKey, _: &[f64]| decisions.get(key).map(|(_, c)| *c);
    let flagged = match ref_cfr(tree, cfg.method, cfg.spec.reference(), cfg.iters, &mut decide) {
        Ok(reference) => reference.flags.any(),
        // an early stop draws less than the full budget: the specification then asks for draws the
        // run did not make; conditioning is unknown, treat as well conditioned
        Err(_) => false,
    };
    Ok(SeqRun { out, log, flagged })
}

#[derive(Debug, PartialEq)]
pub enum Outcome {
    Same,
    /// differs, but the run is ill conditioned (see SeqRun::flagged)
    Inconclusive,
    Differs(String, String),
}

/// Is a multi-threaded result the one-thread result up to summation order, with the same draws?
pub fn compare(seq: &SeqRun, out: &ImplOut, log: &[Draw]) -> Outcome {
    // draws: at most one per (infoset, pass), the same key set, the same distributions
    let mut seen: BTreeMap<Key, &Draw> = BTreeMap::new();
    for draw in log {
        if seen.insert(draw.key, draw).is_some() {
            return Outcome::Differs("double-draw".into(), format!("more than one draw for {:?}", draw.key));
        }
        if draw.intended.is_some() && draw.intended != Some(draw.result) {
            return Outcome::Differs("sampler-ignored-variate".into(), format!("the sampler returned {} for a variate pinned to {:?} over {:?}", draw.result, draw.intended, draw.weights));
        }
    }
    let want: BTreeMap<Key, &Draw> = seq.log.iter().map(|d| (d.key, d)).collect();
    let mut diff: Option<(String, String)> = None;
    for (key, draw) in &seen {
        match want.get(key) {
            None => {
                diff = Some(("extra-draw".into(), format!("a draw at {:?} which the one-thread run does not make", key)));
                break;
            }
            Some(w) => {
                if w.weights.len() != draw.weights.len() || w.weights.iter().zip(draw.weights.iter()).any(|(a, b)| !close(*a, *b, TOL)) {
                    diff = Some(("draw-weights".into(), format!("at {:?} the sampler was given {:?}, in the one-thread run {:?}", key, draw.weights, w.weights)));
                    break;
                }
            }
        }
    }
    if diff.is_none() {
        if let Some(missing) = want.keys().find(|k| !seen.contains_key(k)) {
            diff = Some(("missing-draw".into(), format!("no draw at {:?}, which the one-thread run makes", missing)));
        }
    }
    if diff.is_none() {
        for pl in 0..2 {
            if out.raw[pl].len() != seq.out.raw[pl].len() || out.raw[pl].iter().zip(seq.out.raw[pl].iter()).any(|(a, b)| !close(*a, *b, TOL)) {
                diff = Some(("strategy-differs".into(), format!("player {} strategy {:?}, one thread gives {:?}", pl + 1, out.raw[pl], seq.out.raw[pl])));
                break;
            }
            if !close(out.bounds[pl], seq.out.bounds[pl], TOL) {
                diff = Some(("bound-differs".into(), format!("player {} bound {}, one thread gives {}", pl + 1, out.bounds[pl], seq.out.bounds[pl])));
                break;
            }
        }
    }
    match diff {
        None => Outcome::Same,
        Some(_) if seq.flagged => Outcome::Inconclusive,
        Some((class, what)) => Outcome::Differs(class, what),
    }
}

/// One real-pool run (threads workers; `target` = explicit task target through the hook, or None
/// for the public entry point) compared with the one-thread run. Returns false on a violation.
#[allow(clippy::too_many_arguments)]
pub fn check_real(ctx: &Ctx, tree: &Tree, game: &G, cfg: &Config, seq: &SeqRun, threads: usize, target: Option<usize>) -> bool {
    // the multi run is pinned by the complete decision map of the one-thread run: a draw at a key
    // outside it falls back to the same policy and is reported as an extra draw
    let mut script = cfg.script.clone();
    script.extend(script_of(&seq.log));
    let decider = Pinned::new(script, cfg.fallback);
    let res = {
        let _gate = POOL_GATE.lock().unwrap_or_else(|e| e.into_inner());
        guarded(|| run_impl(tree, game, cfg.method, cfg.iters, cfg.max_reg, threads, target, cfg.spec.implementation(), &decider))
    };
    let log = decider.take_log();
    let mut replay = cfg.to_json(tree);
    replay["threads"] = json!(threads);
    replay["target"] = json!(target);
    let label = format!("threads={} target={:?} {}", threads, target, cfg.describe(tree));
    match res {
        Err(msg) => {
            ctx.violation("panic", &format!("{} {}", msg, label), replay);
            false
        }
        Ok(Err(msg)) => {
            ctx.violation("error-returned", &format!("{} {}", msg, label), replay);
            false
        }
        Ok(Ok(out)) => match compare(seq, &out, &log) {
            Outcome::Same => true,
            Outcome::Inconclusive => {
                ctx.count("ill_conditioned_(tie_or_near_zero_regret_sum;_differs;_not_compared)", 1);
                true
            }
            Outcome::Differs(class, what) => {
                ctx.violation(&class, &format!("{} {}", what, label), replay);
                false
            }
        },
    }
}

pub fn replay_real(ctx: &Ctx, val: &Value) -> i32 {
    if val.get("loom").is_some() {
        return replay_loom(ctx, val);
    }
    let (tree, cfg) = Config::from_json(val);
    let game = crate::subject::build(&tree).expect("valid game");
    let al = align(&tree, &game).expect("alignment");
    let seq = sequential(&tree, &game, &al, &cfg).expect("one-thread run");
    let threads = val["threads"].as_u64().unwrap() as usize;
    let target = val["target"].as_u64().map(|t| t as usize);
    let mut ok = true;
    // a free-running pool: repeat, the schedule is not ours
    for _ in 0..20 {
        ok &= check_real(ctx, &tree, &game, &cfg, &seq, threads, target);
    }
    println!("replay {}", if ok { "passes" } else { "fails" });
    if ok {
        0
    } else {
        1
    }
}

// ---------------------------------------------------------------------------------------------
// loom workers
// ---------------------------------------------------------------------------------------------

pub fn vloom_path() -> std::path::PathBuf {
    std::path::PathBuf::from("/verif/target/loom/release/vloom")
}

pub fn loom_available() -> bool {
    vloom_path().exists() && std::env::var("VERIF_NO_LOOM").is_err()
}

/// exploration bounds of one loom case
#[derive(Debug, Clone, Copy)]
pub struct LoomBounds {
    /// preemption bound for 3 and for >= 4 concurrent tasks (<= 2 tasks: unbounded DPOR)
    pub pb3: Option<usize>,
    pub pb4: Option<usize>,
    pub max_permutations: u64,
    pub max_seconds: u64,
}

/// `schedules == false`: decomposition mode (every batch sequential, one execution per target)
#[allow(clippy::too_many_arguments)]
pub fn loom_case(id: u64, tree: &Tree, cfg: &Config, seq: &SeqRun, threads: usize, targets: &[usize], schedules: bool, bounds: &LoomBounds) -> Value {
    let mut case = cfg.to_json(tree);
    let mut script = cfg.script.clone();
    script.extend(script_of(&seq.log));
    case["script"] = json!(script.iter().map(|(k, c)| json!({"kind": format!("{:?}", k.kind), "id": k.id, "pass": k.pass, "choice": c})).collect::<Vec<_>>());
    case["id"] = json!(id);
    case["loom"] = json!(true);
    case["threads"] = json!(threads);
    case["targets"] = json!(targets);
    case["mode"] = json!(if schedules { "schedules" } else { "decomposition" });
    case["tol"] = json!(TOL);
    case["params"] = match cfg.spec.implementation() {
        None => Value::Null,
        Some(_) => {
            let p = cfg.spec.reference();
            json!([num(p.a), num(p.b), num(p.g), num(p.w)])
        }
    };
    case["spec"] = cfg.spec.to_json();
    case["expect"] = json!({
        "raw": [seq.out.raw[0].iter().map(|x| x.to_bits()).collect::<Vec<_>>(), seq.out.raw[1].iter().map(|x| x.to_bits()).collect::<Vec<_>>()],
        "bounds": [seq.out.bounds[0].to_bits(), seq.out.bounds[1].to_bits()],
    });
    case["expect_draws"] = draws_json(&seq.log);
    case["flagged"] = json!(seq.flagged);
    case["preemption_bounds"] = json!({"0": null, "1": null, "2": null, "3": bounds.pb3, "4": bounds.pb4});
    case["max_permutations"] = json!(bounds.max_permutations);
    case["max_seconds"] = json!(bounds.max_seconds);
    case
}

#[derive(Debug)]
pub enum LoomResult {
    Done(Value),
    /// the worker died while this case was running: a panic or deadlock under some schedule
    Died(String),
}

/// Run `cases` on `workers` loom worker processes; results in case order
pub fn run_loom(cases: &[Value], workers: usize) -> Vec<LoomResult> {
    if let Ok(path) = std::env::var("VERIF_DUMP_CASES") {
        use std::io::Write as _;
        if let Ok(mut file) = std::fs::OpenOptions::new().create(true).append(true).open(path) {
            for case in cases.iter().step_by(97) {
                let _ = writeln!(file, "{}", case);
            }
        }
        if std::env::var("VERIF_DUMP_EXIT").is_ok() {
            std::process::exit(3);
        }
    }
    let results: Mutex<BTreeMap<usize, LoomResult>> = Mutex::new(BTreeMap::new());
    let next = std::sync::atomic::AtomicUsize::new(0);
    // cheap cases (decomposition mode) in large chunks: a worker process per chunk
    let chunk = if cases.first().map(|c| c["mode"].as_str() == Some("decomposition")).unwrap_or(false) { 512usize } else { 8usize };
    std::thread::scope(|scope| {
        for _ in 0..workers.max(1) {
            scope.spawn(|| loop {
                let start = next.fetch_add(chunk, std::sync::atomic::Ordering::Relaxed);
                if start >= cases.len() {
                    break;
                }
                let end = (start + chunk).min(cases.len());
                let mut pos = start;
                while pos < end {
                    // (re)start a worker for cases pos..end
                    let mut child = Command::new(vloom_path())
                        .stdin(Stdio::piped())
                        .stdout(Stdio::piped())
                        .stderr(Stdio::piped())
                        .env("RUST_BACKTRACE", "0")
                        .spawn()
                        .expect("spawn vloom");
                    // feed the cases from a separate thread: the worker answers while it reads, and
                    // two full pipes would otherwise block both sides
                    let mut stdin = child.stdin.take().unwrap();
                    let feed: Vec<String> = cases[pos..end]
                        .iter()
                        .enumerate()
                        .map(|(off, case)| {
                            let mut case = case.clone();
                            case["id"] = json!(pos + off);
                            case.to_string()
                        })
                        .collect();
                    let feeder = std::thread::spawn(move || {
                        for line in feed {
                            if writeln!(stdin, "{}", line).is_err() {
                                break;
                            }
                        }
                    });
                    let stdout = BufReader::new(child.stdout.take().unwrap());
                    let mut running: Option<usize> = None;
                    let mut finished = pos;
                    for line in stdout.lines() {
                        let line = match line {
                            Ok(l) => l,
                            Err(_) => break,
                        };
                        if let Some(rest) = line.strip_prefix("START ") {
                            running = rest.trim().parse().ok();
                        } else if let Some(rest) = line.strip_prefix("RESULT ") {
                            let (id, body) = rest.split_once(' ').unwrap();
                            let id: usize = id.parse().unwrap();
                            let val: Value = serde_json::from_str(body).unwrap_or(Value::Null);
                            results.lock().unwrap().insert(id, LoomResult::Done(val));
                            running = None;
                            finished = id + 1;
                        }
                    }
                    let mut err = String::new();
                    if let Some(mut stderr) = child.stderr.take() {
                        use std::io::Read;
                        let _ = stderr.read_to_string(&mut err);
                    }
                    let status = child.wait().ok();
                    let _ = feeder.join();
                    match running {
                        Some(id) => {
                            let tail: String = err.lines().filter(|l| !l.trim().is_empty()).rev().take(12).collect::<Vec<_>>().into_iter().rev().collect::<Vec<_>>().join(" | ");
                            results.lock().unwrap().insert(id, LoomResult::Died(format!("status {:?}: {}", status, tail)));
                            pos = id + 1;
                        }
                        None => {
                            if finished < end && status.map(|s| !s.success()).unwrap_or(true) {
                                // died between cases: machinery problem, attribute to the next case
                                results.lock().unwrap().insert(finished, LoomResult::Died(format!("worker exited between cases: {:?} {}", status, err.lines().last().unwrap_or(""))));
                                pos = finished + 1;
                            } else {
                                pos = end;
                            }
                        }
                    }
                }
            });
        }
    });
    let mut map = results.into_inner().unwrap();
    (0..cases.len()).map(|i| map.remove(&i).unwrap_or(LoomResult::Died("no result".into()))).collect()
}

#[derive(Default)]
pub struct LoomTotals {
    pub schedules: u64,
    pub cases: u64,
    pub cases_with_concurrency: u64,
    pub capped: u64,
    pub bounded: u64,
    pub max_tasks: u64,
    pub distinct_outcomes_max: u64,
    pub cases_with_several_outcomes: u64,
    pub oversize: u64,
}

/// Fold the result of one loom case into the context; returns false on a violation
pub fn judge_loom(ctx: &Ctx, case: &Value, res: &LoomResult, totals: &mut LoomTotals) -> bool {
    match res {
        LoomResult::Done(Value::Array(per_target)) => {
            let mut ok = true;
            for val in per_target {
                ok &= judge_one(ctx, case, Some(&val["target"]), &LoomResult::Done(val.clone()), totals);
            }
            ok
        }
        other => judge_one(ctx, case, None, other, totals),
    }
}

/// the replay form of one (case, target): built only when something is reported
fn one_target(case: &Value, target: Option<&Value>) -> Value {
    let mut one = case.clone();
    if let Some(target) = target {
        one["targets"] = json!([target]);
    }
    one
}

fn judge_one(ctx: &Ctx, case: &Value, target: Option<&Value>, res: &LoomResult, totals: &mut LoomTotals) -> bool {
    let label = || {
        format!(
            "[{} {} T={} targets={} {}] on {}",
            case["method"].as_str().unwrap_or("?"),
            case["spec"],
            case["iters"],
            target.unwrap_or(&case["targets"]),
            case["mode"].as_str().unwrap_or("?"),
            Tree::from_replay(&case["tree"]).show()
        )
    };
    totals.cases += 1;
    match res {
        LoomResult::Died(msg) => {
            let class = if msg.contains("deadlock") {
                "deadlock-under-schedule"
            } else if msg.contains("TryLockError") || msg.contains("WouldBlock") || msg.contains("try_lock") {
                "workers-met-in-one-infoset"
            } else {
                "panic-under-schedule"
            };
            ctx.violation(class, &format!("the loom worker died while exploring {}: {}", label(), msg), one_target(case, target));
            false
        }
        LoomResult::Done(val) => {
            let execs = val["executions"].as_u64().unwrap_or(0);
            let tasks = val["max_concurrent_tasks"].as_u64().unwrap_or(0);
            totals.schedules += execs;
            totals.max_tasks = totals.max_tasks.max(tasks);
            if tasks >= 2 {
                totals.cases_with_concurrency += 1;
            }
            if val["capped"].as_bool().unwrap_or(false) {
                totals.capped += 1;
            }
            if !val["preemption_bound"].is_null() {
                totals.bounded += 1;
            }
            let outcomes = val["distinct_outcomes"].as_u64().unwrap_or(0);
            totals.distinct_outcomes_max = totals.distinct_outcomes_max.max(outcomes);
            if outcomes > 1 {
                totals.cases_with_several_outcomes += 1;
            }
            totals.oversize += val["oversize_batches_per_execution"].as_u64().unwrap_or(0);
            ctx.add(&ctx.states, execs);
            ctx.add(&ctx.evaluations, execs);
            ctx.add(&ctx.validated, execs);
            ctx.add(&ctx.transitions, val["atomic_ops"].as_u64().unwrap_or(0) + val["tasks_spawned"].as_u64().unwrap_or(0) + execs);
            if tasks >= 2 {
                ctx.add(&ctx.nontrivial, execs);
            }
            let flagged = case["flagged"].as_bool().unwrap_or(false);
            let mut ok = true;
            if val["errors"].as_u64().unwrap_or(0) > 0 {
                ctx.violation("error-returned", &format!("{} schedules of {} returned {}", val["errors"], label(), val["first_error"]), one_target(case, target));
                ok = false;
            }
            if val["mismatches"].as_u64().unwrap_or(0) > 0 {
                if flagged {
                    ctx.count("ill_conditioned_(tie_or_near_zero_regret_sum;_differs;_not_compared)", 1);
                } else {
                    let class = if case["mode"].as_str() == Some("decomposition") { "decomposition-dependent-result" } else { "schedule-dependent-result" };
                    ctx.violation(class, &format!("{} of {} schedules of {} differ from one thread: {}", val["mismatches"], execs, label(), val["first_mismatch"]), one_target(case, target));
                    ok = false;
                }
            }
            if val["draw_problems"].as_u64().unwrap_or(0) > 0 {
                if flagged {
                    ctx.count("ill_conditioned_(tie_or_near_zero_regret_sum;_differs;_not_compared)", 1);
                } else {
                    let class = if case["mode"].as_str() == Some("decomposition") { "decomposition-dependent-draws" } else { "schedule-dependent-draws" };
                    ctx.violation(class, &format!("{} of {} schedules of {}: {}", val["draw_problems"], execs, label(), val["first_draw_problem"]), one_target(case, target));
                    ok = false;
                }
            }
            ok
        }
    }
}

impl LoomTotals {
    pub fn merge(&mut self, other: &LoomTotals) {
        self.schedules += other.schedules;
        self.cases += other.cases;
        self.cases_with_concurrency += other.cases_with_concurrency;
        self.capped += other.capped;
        self.bounded += other.bounded;
        self.max_tasks = self.max_tasks.max(other.max_tasks);
        self.distinct_outcomes_max = self.distinct_outcomes_max.max(other.distinct_outcomes_max);
        self.cases_with_several_outcomes += other.cases_with_several_outcomes;
        self.oversize += other.oversize;
    }
}

pub fn report_loom(ctx: &Ctx, totals: &LoomTotals) {
    ctx.set(
        "loom",
        json!({
            "cases": totals.cases,
            "cases_with_>=2_concurrent_tasks": totals.cases_with_concurrency,
            "schedules_explored": totals.schedules,
            "largest_concurrent_batch": totals.max_tasks,
            "cases_preemption_bounded": totals.bounded,
            "cases_capped_(permutation_or_time_cap_hit)": totals.capped,
            "cases_with_more_than_one_bit_level_outcome": totals.cases_with_several_outcomes,
            "max_distinct_bit_level_outcomes_of_one_case": totals.distinct_outcomes_max,
            "oversize_batches_run_sequentially": totals.oversize,
        }),
    );
}

pub fn replay_loom(ctx: &Ctx, case: &Value) -> i32 {
    if !loom_available() {
        println!("MACHINERY: loom worker not built");
        return 2;
    }
    let res = run_loom(std::slice::from_ref(case), 1);
    let mut totals = LoomTotals::default();
    let ok = judge_loom(ctx, case, &res[0], &mut totals);
    println!("replay {} ({} schedules)", if ok { "passes" } else { "fails" }, totals.schedules);
    if ok {
        0
    } else {
        1
    }
}

/// distinct sorted set helper for evidence
pub fn distinct<T: Ord + Clone>(items: impl IntoIterator<Item = T>) -> Vec<T> {
    items.into_iter().collect::<BTreeSet<_>>().into_iter().collect()
}

pub fn _unused() -> std::path::PathBuf {
    verif_root()
}
