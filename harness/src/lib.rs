pub mod checks;
pub mod framework;
pub mod refmodel;
pub mod subject;
pub mod tree;
pub mod universe;
