#!/bin/bash
# Builds the verification framework offline from files on disk. Run once after a fresh restore.
set -e
cd "$(dirname "$0")"
export CARGO_NET_OFFLINE=true
mkdir -p target evidence
(cd harness && cargo build --release --offline)
if [ -d harness-loom ]; then (cd harness-loom && cargo build --release --offline); fi
(cd /repo && RUSTFLAGS="--cfg erikbrinkman_cfr_verif" CARGO_TARGET_DIR=/verif/target/cli cargo build --release --offline --bin cfr)
echo "setup done"
