//! loom-visible stand-in for portable_atomic::AtomicF64
use loom::sync::atomic::AtomicUsize;
pub use std::sync::atomic::Ordering;
use std::cell::UnsafeCell;

#[derive(Debug)]
pub struct AtomicF64 {
    point: AtomicUsize,
    val: UnsafeCell<f64>,
}
unsafe impl Sync for AtomicF64 {}
unsafe impl Send for AtomicF64 {}
impl AtomicF64 {
    pub fn new(v: f64) -> Self { AtomicF64 { point: AtomicUsize::new(0), val: UnsafeCell::new(v) } }
    pub fn get_mut(&mut self) -> &mut f64 { self.val.get_mut() }
    pub fn fetch_add(&self, v: f64, o: Ordering) -> f64 {
        self.point.fetch_add(1, o);
        unsafe { let p = self.val.get(); let old = *p; *p = old + v; old }
    }
    pub fn fetch_sub(&self, v: f64, o: Ordering) -> f64 {
        self.point.fetch_add(1, o);
        unsafe { let p = self.val.get(); let old = *p; *p = old - v; old }
    }
    pub fn load(&self, o: Ordering) -> f64 { self.point.load(o); unsafe { *self.val.get() } }
    pub fn store(&self, v: f64, o: Ordering) { self.point.fetch_add(1, o); unsafe { *self.val.get() = v } }
}
