//! subset of rayon's API on loom threads: one loom thread per item of a mapped parallel iterator
use std::collections::HashMap;
use std::hash::Hash;

#[derive(Debug)]
pub struct ThreadPoolBuildError;
impl std::fmt::Display for ThreadPoolBuildError { fn fmt(&self, f: &mut std::fmt::Formatter<'_>) -> std::fmt::Result { write!(f, "shim") } }
impl std::error::Error for ThreadPoolBuildError {}
#[derive(Default)]
pub struct ThreadPoolBuilder { n: usize }
pub struct ThreadPool { #[allow(dead_code)] n: usize }
pub struct Scope;
impl ThreadPoolBuilder {
    pub fn new() -> Self { ThreadPoolBuilder { n: 0 } }
    pub fn num_threads(mut self, n: usize) -> Self { self.n = n; self }
    pub fn build(self) -> Result<ThreadPool, ThreadPoolBuildError> { Ok(ThreadPool { n: self.n }) }
}
impl ThreadPool {
    pub fn scope<'s, F, R>(&self, f: F) -> R where F: FnOnce(&Scope) -> R { f(&Scope) }
}

pub mod iter {
    use super::*;
    pub trait ParallelIterator: Sized {
        type Item: Send;
        fn run(self) -> Vec<Self::Item>;
        fn map<F, R>(self, f: F) -> Map<Self, F> where F: Fn(Self::Item) -> R + Sync + Send, R: Send { Map { inner: self, f } }
        fn sum<S>(self) -> S where S: std::iter::Sum<Self::Item> { self.run().into_iter().sum() }
    }
    pub struct Map<I, F> { inner: I, f: F }
    impl<I: ParallelIterator, F, R> ParallelIterator for Map<I, F> where F: Fn(I::Item) -> R + Sync + Send, R: Send {
        type Item = R;
        fn run(self) -> Vec<R> {
            let items = self.inner.run();
            let f = &self.f;
            if items.len() <= 1 || items.len() > 4 {
                return items.into_iter().map(f).collect();
            }
            let n = items.len();
            let mut slots: Vec<Option<R>> = (0..n).map(|_| None).collect();
            struct Ptr<R>(*mut Option<R>);
            unsafe impl<R> Send for Ptr<R> {}
            let mut handles = Vec::new();
            for (i, item) in items.into_iter().enumerate() {
                let slot = Ptr(unsafe { slots.as_mut_ptr().add(i) });
                let job: Box<dyn FnOnce() + Send + '_> = Box::new(move || { let slot = slot; unsafe { *slot.0 = Some(f(item)); } });
                // SAFETY: every thread is joined before this function returns
                let job: Box<dyn FnOnce() + Send + 'static> = unsafe { std::mem::transmute(job) };
                handles.push(loom::thread::spawn(job));
            }
            for h in handles { h.join().unwrap(); }
            slots.into_iter().map(|s| s.unwrap()).collect()
        }
    }
    pub struct Drain<T> { items: Vec<T> }
    impl<T: Send> ParallelIterator for Drain<T> { type Item = T; fn run(self) -> Vec<T> { self.items } }
    pub trait ParallelDrainRange<Idx = usize> { type Iter: ParallelIterator<Item = Self::Item>; type Item: Send; fn par_drain<R: std::ops::RangeBounds<Idx>>(self, r: R) -> Self::Iter; }
    impl<'a, T: Send> ParallelDrainRange<usize> for &'a mut Vec<T> {
        type Iter = Drain<T>; type Item = T;
        fn par_drain<R: std::ops::RangeBounds<usize>>(self, r: R) -> Drain<T> { Drain { items: self.drain(r).collect() } }
    }
    pub trait ParallelExtend<T: Send> { fn par_extend<I: ParallelIterator<Item = T>>(&mut self, it: I); }
    impl<K: Eq + Hash + Send, V: Send> ParallelExtend<(K, V)> for HashMap<K, V> {
        fn par_extend<I: ParallelIterator<Item = (K, V)>>(&mut self, it: I) { self.extend(it.run()) }
    }
    pub struct IterMut<'a, T> { items: Vec<&'a mut T> }
    impl<'a, T: Send> ParallelIterator for IterMut<'a, T> { type Item = &'a mut T; fn run(self) -> Vec<&'a mut T> { self.items } }
    pub trait IntoParallelRefMutIterator<'a> { type Iter; fn par_iter_mut(&'a mut self) -> Self::Iter; }
    impl<'a, T: Send + 'a> IntoParallelRefMutIterator<'a> for [T] { type Iter = IterMut<'a, T>; fn par_iter_mut(&'a mut self) -> IterMut<'a, T> { IterMut { items: self.iter_mut().collect() } } }
}
