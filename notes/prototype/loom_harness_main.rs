use cfr::{Game, GameNode, IntoGameNode, PlayerNum, SolveMethod, RegretParams};
use PlayerNum::{One, Two};
use std::sync::{Arc, Mutex};
use std::collections::BTreeSet;
struct N(GameNode<N>);
impl IntoGameNode for N {
    type PlayerInfo = &'static str; type Action = &'static str; type ChanceInfo = &'static str;
    type Outcomes = Vec<(f64, N)>; type Actions = Vec<(&'static str, N)>;
    fn into_game_node(self) -> GameNode<Self> { self.0 }
}
fn t(x: f64) -> N { N(GameNode::Terminal(x)) }
fn p(n: PlayerNum, i: &'static str, a: Vec<(&'static str, N)>) -> N { N(GameNode::Player(n, i, a)) }
fn g() -> N {
    // P1 picks a/b/c; P2 (one infoset, does not see) picks l/r
    p(One, "r", vec![
        ("a", p(Two,"z",vec![("l",t(1.0)),("r",t(-2.0))])),
        ("b", p(Two,"z",vec![("l",t(-1.0)),("r",t(3.0))])),
        ("c", p(Two,"z",vec![("l",t(0.5)),("r",t(0.25))])),
        ("d", p(Two,"z",vec![("l",t(-0.5)),("r",t(1.25))])),
    ])
}
fn main() {
    let args: Vec<String> = std::env::args().collect();
    let method = match args[1].as_str() { "full" => SolveMethod::Full, "sampled" => SolveMethod::Sampled, _ => SolveMethod::External };
    let iters: u64 = args[2].parse().unwrap();
    let target: usize = args[3].parse().unwrap();
    let outcomes = Arc::new(Mutex::new(BTreeSet::new()));
    let execs = Arc::new(std::sync::atomic::AtomicUsize::new(0));
    let (o2, e2) = (outcomes.clone(), execs.clone());
    let mut b = loom::model::Builder::new(); b.preemption_bound = std::env::var("PB").ok().map(|v| v.parse().unwrap());
    b.max_branches = 100_000;
    let start = std::time::Instant::now();
    b.check(move || {
        let game = Game::from_root(g()).unwrap();
        let (regs, strats) = cfr::verif::solve_multi(&game, method, iters, 0.0, 3, target, RegretParams::vanilla());
        e2.fetch_add(1, std::sync::atomic::Ordering::Relaxed);
        let key: Vec<u64> = regs.iter().chain(strats.iter().flat_map(|s| s.iter())).map(|f| f.to_bits()).collect();
        o2.lock().unwrap().insert(key);
    });
    println!("executions={} distinct_outcomes={} wall={:?}", execs.load(std::sync::atomic::Ordering::Relaxed), outcomes.lock().unwrap().len(), start.elapsed());
    for o in outcomes.lock().unwrap().iter().take(3) { println!("{:?}", o.iter().map(|b| f64::from_bits(*b)).collect::<Vec<_>>()); }
}
