//! The subset of rayon's API that erikbrinkman/cfr uses (and the neighbouring calls a refactor is
//! likely to reach for), executed on loom threads.
//!
//! Execution model: a *mapped* parallel iterator (`.map(f)` / `.for_each(f)`) over shared-capable
//! items runs ONE LOOM THREAD PER ITEM, all joined before the call returns. Every schedule of that
//! is a schedule a rayon pool with at least that many workers can produce when each item is its own
//! job, so a violation found is real; and nothing a pool can do with these items is missing except
//! running several items back-to-back on one worker, which is the subset of these schedules without
//! preemptions between the back-to-back items. Batches with more than `VLOOM_MAX_TASKS` (default 4)
//! items, and batches over exclusive `&mut` items (`par_iter_mut`), run sequentially; both are
//! counted so that the evidence can say so.
use std::collections::HashMap;
use std::hash::Hash;
use std::sync::atomic::{AtomicU64, Ordering::Relaxed};

/// parallel batches that were run as loom threads
pub static PAR_BATCHES: AtomicU64 = AtomicU64::new(0);
/// loom threads spawned for them
pub static PAR_TASKS: AtomicU64 = AtomicU64::new(0);
/// largest batch run as loom threads
pub static MAX_TASKS: AtomicU64 = AtomicU64::new(0);
/// batches of >= 2 shared-capable items that were too large and ran sequentially
pub static OVERSIZE_BATCHES: AtomicU64 = AtomicU64::new(0);
/// batches over exclusive items that ran sequentially by design
pub static EXCLUSIVE_BATCHES: AtomicU64 = AtomicU64::new(0);

/// when set, every batch runs sequentially on the calling thread (decomposition mode: the frontier
/// split is explored without any concurrency)
pub static SEQUENTIAL: std::sync::atomic::AtomicBool = std::sync::atomic::AtomicBool::new(false);
/// batches of >= 2 shared-capable items seen (whether or not they ran concurrently)
pub static SPLIT_BATCHES: AtomicU64 = AtomicU64::new(0);
/// largest such batch
pub static MAX_SPLIT: AtomicU64 = AtomicU64::new(0);

fn max_tasks() -> usize {
    static CAP: std::sync::OnceLock<usize> = std::sync::OnceLock::new();
    *CAP.get_or_init(|| {
        std::env::var("VLOOM_MAX_TASKS")
            .ok()
            .and_then(|v| v.parse().ok())
            .unwrap_or(4)
    })
}

#[derive(Debug)]
pub struct ThreadPoolBuildError;

impl std::fmt::Display for ThreadPoolBuildError {
    fn fmt(&self, fmt: &mut std::fmt::Formatter<'_>) -> std::fmt::Result {
        write!(fmt, "shim thread pool build error")
    }
}

impl std::error::Error for ThreadPoolBuildError {}

#[derive(Default, Debug)]
pub struct ThreadPoolBuilder {
    num: usize,
}

#[derive(Debug)]
pub struct ThreadPool {
    num: usize,
}

impl ThreadPoolBuilder {
    pub fn new() -> Self {
        ThreadPoolBuilder { num: 0 }
    }

    pub fn num_threads(mut self, num: usize) -> Self {
        self.num = num;
        self
    }

    pub fn build(self) -> Result<ThreadPool, ThreadPoolBuildError> {
        Ok(ThreadPool { num: self.num })
    }
}

struct SendPtr<T>(*mut T);
unsafe impl<T> Send for SendPtr<T> {}

/// Run the first job on the calling thread and every other job on its own loom thread; join them all
/// (in order) before returning. The caller of a rayon parallel iterator is itself a pool worker and
/// takes part in the work, and interleavings are over the jobs' operations whichever thread carries
/// them, so nothing is lost; it saves one of loom's scarce thread slots per batch.
fn run_threads<'a, R: Send + 'a>(jobs: Vec<Box<dyn FnOnce() -> R + Send + 'a>>) -> Vec<R> {
    let num = jobs.len();
    PAR_BATCHES.fetch_add(1, Relaxed);
    PAR_TASKS.fetch_add(num as u64, Relaxed);
    MAX_TASKS.fetch_max(num as u64, Relaxed);
    let mut slots: Vec<Option<R>> = (0..num).map(|_| None).collect();
    let mut handles = Vec::with_capacity(num);
    let mut jobs = jobs.into_iter().enumerate();
    let (_, first) = jobs.next().expect("at least one job");
    for (ind, job) in jobs {
        let slot = SendPtr(unsafe { slots.as_mut_ptr().add(ind) });
        let wrapped: Box<dyn FnOnce() + Send + 'a> = Box::new(move || {
            let slot = slot;
            let res = job();
            unsafe { *slot.0 = Some(res) };
        });
        // SAFETY: every thread is joined before this function returns, so nothing borrowed for 'a
        // is used after 'a ends
        let wrapped: Box<dyn FnOnce() + Send + 'static> = unsafe { std::mem::transmute(wrapped) };
        handles.push(loom::thread::spawn(wrapped));
    }
    let first_res = std::panic::catch_unwind(std::panic::AssertUnwindSafe(first));
    let mut failed = false;
    for handle in handles {
        if handle.join().is_err() {
            failed = true;
        }
    }
    match first_res {
        Ok(res) => slots[0] = Some(res),
        Err(payload) => std::panic::resume_unwind(payload),
    }
    if failed {
        panic!("a worker task panicked");
    }
    slots.into_iter().map(|slot| slot.expect("worker result")).collect()
}

fn apply<'a, T: Send + 'a, R: Send + 'a>(items: Vec<T>, func: &'a (impl Fn(T) -> R + Sync + 'a), spawn: bool) -> Vec<R> {
    if items.len() < 2 {
        return items.into_iter().map(func).collect();
    }
    if !spawn {
        EXCLUSIVE_BATCHES.fetch_add(1, Relaxed);
        return items.into_iter().map(func).collect();
    }
    SPLIT_BATCHES.fetch_add(1, Relaxed);
    MAX_SPLIT.fetch_max(items.len() as u64, Relaxed);
    if SEQUENTIAL.load(Relaxed) {
        return items.into_iter().map(func).collect();
    }
    if items.len() > max_tasks() {
        OVERSIZE_BATCHES.fetch_add(1, Relaxed);
        return items.into_iter().map(func).collect();
    }
    let jobs: Vec<Box<dyn FnOnce() -> R + Send + 'a>> = items
        .into_iter()
        .map(|item| Box::new(move || func(item)) as Box<dyn FnOnce() -> R + Send + 'a>)
        .collect();
    run_threads(jobs)
}

pub struct Scope<'scope> {
    handles: std::cell::RefCell<Vec<loom::thread::JoinHandle<()>>>,
    marker: std::marker::PhantomData<&'scope ()>,
}

impl<'scope> Scope<'scope> {
    fn new() -> Self {
        Scope {
            handles: std::cell::RefCell::new(Vec::new()),
            marker: std::marker::PhantomData,
        }
    }

    pub fn spawn<F>(&self, body: F)
    where
        F: FnOnce(&Scope<'scope>) + Send + 'scope,
    {
        PAR_TASKS.fetch_add(1, Relaxed);
        let wrapped: Box<dyn FnOnce() + Send + 'scope> = Box::new(move || {
            let inner = Scope::new();
            body(&inner);
            inner.join_all();
        });
        // SAFETY: joined in join_all before the enclosing scope call returns
        let wrapped: Box<dyn FnOnce() + Send + 'static> = unsafe { std::mem::transmute(wrapped) };
        self.handles.borrow_mut().push(loom::thread::spawn(wrapped));
    }

    fn join_all(&self) {
        let mut failed = false;
        loop {
            let next = self.handles.borrow_mut().pop();
            match next {
                Some(handle) => failed |= handle.join().is_err(),
                None => break,
            }
        }
        if failed {
            panic!("a scoped task panicked");
        }
    }
}

pub fn scope<'scope, F, R>(func: F) -> R
where
    F: FnOnce(&Scope<'scope>) -> R,
{
    let scope = Scope::new();
    let res = func(&scope);
    scope.join_all();
    res
}

impl ThreadPool {
    pub fn scope<'scope, F, R>(&self, func: F) -> R
    where
        F: FnOnce(&Scope<'scope>) -> R,
    {
        scope(func)
    }

    pub fn install<F, R>(&self, func: F) -> R
    where
        F: FnOnce() -> R,
    {
        func()
    }

    pub fn current_num_threads(&self) -> usize {
        self.num.max(1)
    }

    pub fn join<A, B, RA, RB>(&self, left: A, right: B) -> (RA, RB)
    where
        A: FnOnce() -> RA + Send,
        B: FnOnce() -> RB + Send,
        RA: Send,
        RB: Send,
    {
        join(left, right)
    }
}

pub fn current_num_threads() -> usize {
    2
}

pub fn join<A, B, RA, RB>(left: A, right: B) -> (RA, RB)
where
    A: FnOnce() -> RA + Send,
    B: FnOnce() -> RB + Send,
    RA: Send,
    RB: Send,
{
    enum Either<L, R> {
        Left(L),
        Right(R),
    }
    let jobs: Vec<Box<dyn FnOnce() -> Either<RA, RB> + Send + '_>> = vec![
        Box::new(move || Either::Left(left())),
        Box::new(move || Either::Right(right())),
    ];
    let mut res = run_threads(jobs).into_iter();
    match (res.next(), res.next()) {
        (Some(Either::Left(a)), Some(Either::Right(b))) => (a, b),
        _ => unreachable!(),
    }
}

pub mod iter {
    use super::*;

    pub trait ParallelIterator: Sized {
        type Item: Send;
        /// whether a closure mapped over the items may run them concurrently
        const SPAWN: bool;

        fn run(self) -> Vec<Self::Item>;

        fn map<F, R>(self, func: F) -> Map<Self, F>
        where
            F: Fn(Self::Item) -> R + Sync + Send,
            R: Send,
        {
            Map { inner: self, func }
        }

        fn for_each<F>(self, func: F)
        where
            F: Fn(Self::Item) + Sync + Send,
        {
            let spawn = Self::SPAWN;
            apply(self.run(), &func, spawn);
        }

        fn filter<P>(self, pred: P) -> Plain<Self::Item>
        where
            P: Fn(&Self::Item) -> bool + Sync + Send,
        {
            Plain {
                items: self.run().into_iter().filter(|item| pred(item)).collect(),
            }
        }

        fn sum<S>(self) -> S
        where
            S: std::iter::Sum<Self::Item>,
        {
            self.run().into_iter().sum()
        }

        fn count(self) -> usize {
            self.run().len()
        }

        fn collect<C>(self) -> C
        where
            C: FromIterator<Self::Item>,
        {
            self.run().into_iter().collect()
        }

        fn reduce<OP, ID>(self, identity: ID, op: OP) -> Self::Item
        where
            OP: Fn(Self::Item, Self::Item) -> Self::Item + Sync + Send,
            ID: Fn() -> Self::Item + Sync + Send,
        {
            self.run().into_iter().fold(identity(), |acc, item| op(acc, item))
        }

        fn enumerate(self) -> Plain<(usize, Self::Item)> {
            Plain {
                items: self.run().into_iter().enumerate().collect(),
            }
        }

        fn with_min_len(self, _min: usize) -> Self {
            self
        }

        fn with_max_len(self, _max: usize) -> Self {
            self
        }
    }

    pub use ParallelIterator as IndexedParallelIterator;

    pub struct Map<I, F> {
        inner: I,
        func: F,
    }

    impl<I: ParallelIterator, F, R> ParallelIterator for Map<I, F>
    where
        F: Fn(I::Item) -> R + Sync + Send,
        R: Send,
    {
        type Item = R;
        const SPAWN: bool = I::SPAWN;

        fn run(self) -> Vec<R> {
            let items = self.inner.run();
            apply(items, &self.func, I::SPAWN)
        }
    }

    /// already materialised, shared-capable items
    pub struct Plain<T> {
        pub(crate) items: Vec<T>,
    }

    impl<T: Send> ParallelIterator for Plain<T> {
        type Item = T;
        const SPAWN: bool = true;

        fn run(self) -> Vec<T> {
            self.items
        }
    }

    /// exclusive references: the closures cannot share the items
    pub struct Exclusive<T> {
        items: Vec<T>,
    }

    impl<T: Send> ParallelIterator for Exclusive<T> {
        type Item = T;
        const SPAWN: bool = false;

        fn run(self) -> Vec<T> {
            self.items
        }
    }

    pub trait ParallelDrainRange<Idx = usize> {
        type Iter: ParallelIterator<Item = Self::Item>;
        type Item: Send;
        fn par_drain<R: std::ops::RangeBounds<Idx>>(self, range: R) -> Self::Iter;
    }

    impl<'a, T: Send> ParallelDrainRange<usize> for &'a mut Vec<T> {
        type Iter = Plain<T>;
        type Item = T;

        fn par_drain<R: std::ops::RangeBounds<usize>>(self, range: R) -> Plain<T> {
            Plain {
                items: self.drain(range).collect(),
            }
        }
    }

    pub trait ParallelExtend<T: Send> {
        fn par_extend<I: ParallelIterator<Item = T>>(&mut self, iter: I);
    }

    impl<K: Eq + Hash + Send, V: Send, S: std::hash::BuildHasher + Send> ParallelExtend<(K, V)> for HashMap<K, V, S> {
        fn par_extend<I: ParallelIterator<Item = (K, V)>>(&mut self, iter: I) {
            self.extend(iter.run())
        }
    }

    impl<T: Send> ParallelExtend<T> for Vec<T> {
        fn par_extend<I: ParallelIterator<Item = T>>(&mut self, iter: I) {
            self.extend(iter.run())
        }
    }

    pub trait IntoParallelIterator {
        type Iter: ParallelIterator<Item = Self::Item>;
        type Item: Send;
        fn into_par_iter(self) -> Self::Iter;
    }

    impl<T: Send> IntoParallelIterator for Vec<T> {
        type Iter = Plain<T>;
        type Item = T;

        fn into_par_iter(self) -> Plain<T> {
            Plain { items: self }
        }
    }

    impl IntoParallelIterator for std::ops::Range<usize> {
        type Iter = Plain<usize>;
        type Item = usize;

        fn into_par_iter(self) -> Plain<usize> {
            Plain { items: self.collect() }
        }
    }

    impl<'a, T: Sync + 'a> IntoParallelIterator for &'a [T] {
        type Iter = Plain<&'a T>;
        type Item = &'a T;

        fn into_par_iter(self) -> Plain<&'a T> {
            Plain { items: self.iter().collect() }
        }
    }

    impl<'a, T: Sync + 'a> IntoParallelIterator for &'a Vec<T> {
        type Iter = Plain<&'a T>;
        type Item = &'a T;

        fn into_par_iter(self) -> Plain<&'a T> {
            Plain { items: self.iter().collect() }
        }
    }

    pub trait IntoParallelRefIterator<'a> {
        type Iter: ParallelIterator<Item = Self::Item>;
        type Item: Send + 'a;
        fn par_iter(&'a self) -> Self::Iter;
    }

    impl<'a, T: Sync + 'a> IntoParallelRefIterator<'a> for [T] {
        type Iter = Plain<&'a T>;
        type Item = &'a T;

        fn par_iter(&'a self) -> Plain<&'a T> {
            Plain { items: self.iter().collect() }
        }
    }

    impl<'a, T: Sync + 'a> IntoParallelRefIterator<'a> for Vec<T> {
        type Iter = Plain<&'a T>;
        type Item = &'a T;

        fn par_iter(&'a self) -> Plain<&'a T> {
            Plain { items: self.iter().collect() }
        }
    }

    pub trait IntoParallelRefMutIterator<'a> {
        type Iter: ParallelIterator<Item = Self::Item>;
        type Item: Send + 'a;
        fn par_iter_mut(&'a mut self) -> Self::Iter;
    }

    impl<'a, T: Send + 'a> IntoParallelRefMutIterator<'a> for [T] {
        type Iter = Exclusive<&'a mut T>;
        type Item = &'a mut T;

        fn par_iter_mut(&'a mut self) -> Exclusive<&'a mut T> {
            Exclusive { items: self.iter_mut().collect() }
        }
    }

    impl<'a, T: Send + 'a> IntoParallelRefMutIterator<'a> for Vec<T> {
        type Iter = Exclusive<&'a mut T>;
        type Item = &'a mut T;

        fn par_iter_mut(&'a mut self) -> Exclusive<&'a mut T> {
            Exclusive { items: self.iter_mut().collect() }
        }
    }
}

pub mod prelude {
    pub use crate::iter::{
        IntoParallelIterator, IntoParallelRefIterator, IntoParallelRefMutIterator, ParallelDrainRange, ParallelExtend, ParallelIterator,
    };
}
