//! What the crate under test sees as `loom` in the E-SCHED build: loom's `sync::Mutex` with one
//! extra scheduling point *inside* the critical section.
//!
//! loom switches threads only at its own operations, and releasing a mutex is not one: a critical
//! section that contains no further loom operation is therefore atomic under plain loom, and a
//! `try_lock` by another thread can never observe the mutex held. Real threads can be preempted
//! while holding a lock. `lock` / `try_lock` here touch a loom atomic right after acquiring, which
//! gives the scheduler a point at which the holder is suspended with the lock held.
use loom::sync::atomic::{AtomicUsize, Ordering::Relaxed};
use std::sync::{LockResult, TryLockResult};

pub mod sync {
    pub use super::{Mutex, RwLock};
    pub use loom::sync::atomic;
    pub use loom::sync::{Arc, Condvar, MutexGuard, RwLockReadGuard, RwLockWriteGuard};
}

pub use loom::thread;

/// lock acquisitions (all executions)
pub static LOCKS: std::sync::atomic::AtomicU64 = std::sync::atomic::AtomicU64::new(0);

#[derive(Debug)]
pub struct Mutex<T> {
    inner: loom::sync::Mutex<T>,
    point: AtomicUsize,
}

impl<T> Mutex<T> {
    pub fn new(data: T) -> Mutex<T> {
        Mutex {
            inner: loom::sync::Mutex::new(data),
            point: AtomicUsize::new(0),
        }
    }

    pub fn into_inner(self) -> LockResult<T> {
        self.inner.into_inner()
    }

    #[track_caller]
    pub fn lock(&self) -> LockResult<loom::sync::MutexGuard<'_, T>> {
        let guard = self.inner.lock();
        LOCKS.fetch_add(1, std::sync::atomic::Ordering::Relaxed);
        self.point.fetch_add(1, Relaxed);
        guard
    }

    #[track_caller]
    pub fn try_lock(&self) -> TryLockResult<loom::sync::MutexGuard<'_, T>> {
        let guard = self.inner.try_lock();
        if guard.is_ok() {
            LOCKS.fetch_add(1, std::sync::atomic::Ordering::Relaxed);
            self.point.fetch_add(1, Relaxed);
        }
        guard
    }

    pub fn get_mut(&mut self) -> LockResult<&mut T> {
        self.inner.get_mut()
    }
}

/// loom's `RwLock` with the same extra scheduling point inside the critical section
#[derive(Debug)]
pub struct RwLock<T> {
    inner: loom::sync::RwLock<T>,
    point: AtomicUsize,
}

impl<T> RwLock<T> {
    pub fn new(data: T) -> RwLock<T> {
        RwLock {
            inner: loom::sync::RwLock::new(data),
            point: AtomicUsize::new(0),
        }
    }

    pub fn into_inner(self) -> LockResult<T> {
        self.inner.into_inner()
    }

    #[track_caller]
    pub fn read(&self) -> LockResult<loom::sync::RwLockReadGuard<'_, T>> {
        let guard = self.inner.read();
        LOCKS.fetch_add(1, std::sync::atomic::Ordering::Relaxed);
        self.point.load(Relaxed);
        guard
    }

    #[track_caller]
    pub fn write(&self) -> LockResult<loom::sync::RwLockWriteGuard<'_, T>> {
        let guard = self.inner.write();
        LOCKS.fetch_add(1, std::sync::atomic::Ordering::Relaxed);
        self.point.fetch_add(1, Relaxed);
        guard
    }

    #[track_caller]
    pub fn try_read(&self) -> TryLockResult<loom::sync::RwLockReadGuard<'_, T>> {
        self.inner.try_read()
    }

    #[track_caller]
    pub fn try_write(&self) -> TryLockResult<loom::sync::RwLockWriteGuard<'_, T>> {
        self.inner.try_write()
    }

    pub fn get_mut(&mut self) -> LockResult<&mut T> {
        self.inner.get_mut()
    }
}
