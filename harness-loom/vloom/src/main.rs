//! E-SCHED worker: runs loom models of the real `solve_*_multi` functions.
//!
//! Protocol: reads one JSON case per line on stdin; for each prints `START <n>` and then
//! `RESULT <n> <json>` on stdout (flushed). A panic / deadlock inside a model kills the process
//! (loom failures can abort); the orchestrator (`vcheck C06|C07` in /verif/harness) then knows which
//! case was running, reports it, and restarts a worker for the remaining cases.
//!
//! A case: game tree (replay form), method, parameters, budget, threshold, worker count, a LIST of
//! task targets, pinned sampling decisions, the sequential result to compare every result with, the
//! mode and the exploration bounds; the result is one object per task target.
//!   mode "decomposition": the shim runs every batch sequentially, so each target is one
//!     deterministic execution of the frontier-split logic (no OS threads, microseconds per case);
//!   mode "schedules": per target the worker first runs ONE execution to learn how many tasks the
//!     frontier has (shim counters), then explores every interleaving: unbounded DPOR for <= 2
//!     concurrent tasks, preemption-bounded above (bounds come with the case).
#[allow(dead_code)]
#[path = "../../../harness/src/explore.rs"]
mod explore;
#[allow(dead_code)]
#[path = "../../../harness/src/tree.rs"]
mod tree;

use cfr::verif::Decider;
use cfr::{Game, PlayerNum, RegretParams, SolveMethod};
use explore::{script_from_json, Fallback, Pinned};
use serde_json::{json, Value};
use std::collections::{BTreeMap, BTreeSet};
use std::io::{BufRead, Write};
use std::num::NonZeroUsize;
use std::sync::atomic::Ordering::Relaxed;
use std::sync::{Arc, Mutex};
use std::time::{Duration, Instant};
use tree::Tree;

fn num(val: &Value) -> f64 {
    match val {
        Value::String(s) => s.parse::<f64>().expect("number string"),
        other => other.as_f64().expect("number"),
    }
}

fn close(a: f64, b: f64, tol: f64) -> bool {
    if a == b {
        return true;
    }
    if !a.is_finite() || !b.is_finite() {
        return false;
    }
    (a - b).abs() <= tol * f64::max(1.0, f64::max(a.abs(), b.abs()))
}

#[derive(Default)]
struct Stats {
    executions: u64,
    outcomes: BTreeSet<Vec<u64>>,
    mismatches: u64,
    first_mismatch: Option<String>,
    draw_problems: u64,
    first_draw_problem: Option<String>,
    errors: u64,
    first_error: Option<String>,
}

struct Counters {
    ops: u64,
    batches: u64,
    tasks: u64,
    oversize: u64,
    exclusive: u64,
}

fn counters() -> Counters {
    Counters {
        ops: shim_atomic::OPS.load(Relaxed) + shim_loom::LOCKS.load(Relaxed),
        batches: shim_rayon::PAR_BATCHES.load(Relaxed),
        tasks: shim_rayon::PAR_TASKS.load(Relaxed),
        oversize: shim_rayon::OVERSIZE_BATCHES.load(Relaxed),
        exclusive: shim_rayon::EXCLUSIVE_BATCHES.load(Relaxed),
    }
}

struct Prepared {
    body: Arc<dyn Fn() + Send + Sync>,
    stats: Arc<Mutex<Stats>>,
    bounds: Value,
    max_perms: usize,
    max_secs: u64,
}

fn run_case(case: &Value) -> Value {
    let decomposition = case["mode"].as_str() == Some("decomposition");
    shim_rayon::SEQUENTIAL.store(decomposition, Relaxed);
    let targets: Vec<usize> = match case["targets"].as_array() {
        Some(arr) => arr.iter().map(|t| t.as_u64().unwrap() as usize).collect(),
        None => vec![case["target"].as_u64().unwrap() as usize],
    };
    if decomposition {
        // no concurrency: one loom execution runs every target of the case, one after the other
        let prepared: Vec<Prepared> = targets.iter().map(|t| prepare(case, *t)).collect();
        let splits: Arc<Mutex<Vec<(u64, u64, u64)>>> = Arc::new(Mutex::new(Vec::new()));
        let bodies: Vec<Arc<dyn Fn() + Send + Sync>> = prepared.iter().map(|p| p.body.clone()).collect();
        let mut model = loom::model::Builder::new();
        model.max_branches = 200_000;
        model.max_threads = 2;
        model.checkpoint_interval = 1;
        model.max_permutations = Some(2);
        let rec = splits.clone();
        model.check(move || {
            for body in &bodies {
                shim_rayon::MAX_SPLIT.store(0, Relaxed);
                let batches = shim_rayon::SPLIT_BATCHES.load(Relaxed);
                let ops = shim_atomic::OPS.load(Relaxed) + shim_loom::LOCKS.load(Relaxed);
                body();
                rec.lock().unwrap().push((shim_rayon::MAX_SPLIT.load(Relaxed), shim_rayon::SPLIT_BATCHES.load(Relaxed) - batches, shim_atomic::OPS.load(Relaxed) + shim_loom::LOCKS.load(Relaxed) - ops));
            }
        });
        let splits = splits.lock().unwrap();
        return Value::Array(
            prepared
                .iter()
                .zip(targets.iter())
                .enumerate()
                .map(|(ind, (prep, target))| {
                    let (max_split, batches, ops) = splits.get(ind).copied().unwrap_or((0, 0, 0));
                    let stats = prep.stats.lock().unwrap();
                    report(&stats, *target, max_split, None, false, ops, batches, 0, 0, 0, 0)
                })
                .collect(),
        );
    }
    Value::Array(targets.into_iter().map(|target| explore_schedules(case, target)).collect())
}

#[allow(clippy::too_many_arguments)]
fn report(stats: &Stats, target: usize, tasks: u64, bound: Option<usize>, capped: bool, ops: u64, split_batches: u64, batches: u64, spawned: u64, oversize: u64, wall_ms: u64) -> Value {
    json!({
        "target": target,
        "split_batches_per_execution": split_batches,
        "executions": stats.executions,
        "distinct_outcomes": stats.outcomes.len(),
        "mismatches": stats.mismatches,
        "first_mismatch": stats.first_mismatch,
        "draw_problems": stats.draw_problems,
        "first_draw_problem": stats.first_draw_problem,
        "errors": stats.errors,
        "first_error": stats.first_error,
        "max_concurrent_tasks": tasks,
        "preemption_bound": bound,
        "capped": capped,
        "atomic_ops": ops,
        "parallel_batches": batches,
        "tasks_spawned": spawned,
        "oversize_batches_per_execution": oversize,
        "wall_ms": wall_ms,
    })
}

fn explore_schedules(case: &Value, target: usize) -> Value {
    let prep = prepare(case, target);
    let bound_for = |tasks: u64| -> Option<usize> {
        let key = format!("{}", tasks.min(4));
        match &prep.bounds[&key] {
            Value::Null => None,
            other => Some(other.as_u64().unwrap() as usize),
        }
    };
    let start = Instant::now();
    // probe: one execution, to learn the size of the largest concurrent batch
    let before = counters();
    shim_rayon::MAX_TASKS.store(0, Relaxed);
    let splits_before = shim_rayon::SPLIT_BATCHES.load(Relaxed);
    let mut probe = loom::model::Builder::new();
    probe.max_branches = 200_000;
    probe.max_threads = 12;
    // loom tests its caps before an execution, every `checkpoint_interval` executions
    probe.checkpoint_interval = 1;
    probe.max_permutations = Some(2);
    let body = prep.body.clone();
    probe.check(move || body());
    let tasks = shim_rayon::MAX_TASKS.load(Relaxed);
    let split_batches = shim_rayon::SPLIT_BATCHES.load(Relaxed) - splits_before;
    let probe_counters = counters();
    *prep.stats.lock().unwrap() = Stats::default();
    let mut builder = loom::model::Builder::new();
    builder.max_branches = 200_000;
    builder.max_threads = 12;
    builder.preemption_bound = bound_for(tasks);
    builder.checkpoint_interval = 1;
    builder.max_permutations = Some(prep.max_perms + 1);
    builder.max_duration = Some(Duration::from_secs(prep.max_secs));
    let body = prep.body.clone();
    builder.check(move || body());
    let after = counters();
    let stats = prep.stats.lock().unwrap();
    let capped = stats.executions as usize >= prep.max_perms || start.elapsed() >= Duration::from_secs(prep.max_secs);
    report(
        &stats,
        target,
        tasks,
        bound_for(tasks),
        capped,
        after.ops - probe_counters.ops,
        split_batches,
        after.batches - probe_counters.batches,
        after.tasks - probe_counters.tasks,
        probe_counters.oversize - before.oversize,
        start.elapsed().as_millis() as u64,
    )
}

fn prepare(case: &Value, target: usize) -> Prepared {
    let tree = Tree::from_replay(&case["tree"]);
    let method = match case["method"].as_str().unwrap() {
        "full" => SolveMethod::Full,
        "sampled" => SolveMethod::Sampled,
        _ => SolveMethod::External,
    };
    let params = case["params"].as_array().map(|arr| RegretParams::new(num(&arr[0]), num(&arr[1]), num(&arr[2]), num(&arr[3])));
    let iters = case["iters"].as_u64().unwrap();
    let max_reg = num(&case["max_reg"]);
    let threads = NonZeroUsize::new(case["threads"].as_u64().unwrap() as usize).unwrap();
    let target = NonZeroUsize::new(target).unwrap();
    let script = script_from_json(&case["script"]);
    let fallback = match &case["fallback"] {
        Value::String(_) => Fallback::First,
        other => Fallback::Hash(other.as_u64().unwrap()),
    };
    let tol = case["tol"].as_f64().unwrap_or(1e-9);
    let want_raw: Vec<Vec<f64>> = case["expect"]["raw"].as_array().unwrap().iter().map(|v| v.as_array().unwrap().iter().map(|b| f64::from_bits(b.as_u64().unwrap())).collect()).collect();
    let want_bounds: Vec<f64> = case["expect"]["bounds"].as_array().unwrap().iter().map(|b| f64::from_bits(b.as_u64().unwrap())).collect();
    // the draws of the sequential run: key -> (weights, choice)
    let want_draws: BTreeMap<cfr::verif::Key, (Vec<f64>, usize)> = case["expect_draws"]
        .as_array()
        .map(|arr| {
            arr.iter()
                .map(|d| {
                    let key = script_from_json(&json!([d])).into_iter().next().unwrap();
                    (key.0, (d["weights"].as_array().unwrap().iter().map(|w| w.as_f64().unwrap()).collect(), key.1))
                })
                .collect()
        })
        .unwrap_or_default();
    let compare_draws = case["expect_draws"].is_array();
    let max_perms = case["max_permutations"].as_u64().unwrap_or(200_000) as usize;
    let max_secs = case["max_seconds"].as_u64().unwrap_or(120);

    let stats = Arc::new(Mutex::new(Stats::default()));
    let body = {
        let stats = stats.clone();
        move || {
            let game: Game<String, String> = Game::from_root(tree.clone()).expect("the case's tree is a valid game");
            let decider = Pinned::new(script.clone(), fallback);
            let dec: Arc<dyn Decider> = decider.clone();
            let res = cfr::verif::with_session(dec, || cfr::verif::solve_with_target(&game, method, iters, max_reg, threads, target, params));
            let log = decider.take_log();
            let mut stats = stats.lock().unwrap();
            stats.executions += 1;
            match res {
                Err(err) => {
                    stats.errors += 1;
                    stats.first_error.get_or_insert(format!("{:?}", err));
                }
                Ok((strats, bound)) => {
                    let raw = cfr::verif::raw_probs(&strats);
                    let bounds = [bound.player_regret_bound(PlayerNum::One), bound.player_regret_bound(PlayerNum::Two)];
                    let mut key: Vec<u64> = Vec::new();
                    let mut same = true;
                    for pl in 0..2 {
                        key.extend(raw[pl].iter().map(|x| x.to_bits()));
                        same &= raw[pl].len() == want_raw[pl].len() && raw[pl].iter().zip(want_raw[pl].iter()).all(|(a, b)| close(*a, *b, tol));
                        key.push(bounds[pl].to_bits());
                        same &= close(bounds[pl], want_bounds[pl], tol);
                    }
                    stats.outcomes.insert(key);
                    if !same {
                        stats.mismatches += 1;
                        stats.first_mismatch.get_or_insert(format!(
                            "strategies {:?} / {:?} bounds {:?}, one thread gives {:?} / {:?} bounds {:?}",
                            raw[0], raw[1], bounds, want_raw[0], want_raw[1], want_bounds
                        ));
                    }
                }
            }
            // the draws: at most one per (infoset, pass); the same sites, distributions and results
            let mut seen = BTreeSet::new();
            let mut problem: Option<String> = None;
            for draw in &log {
                if !seen.insert(draw.key) {
                    problem.get_or_insert(format!("more than one draw for {:?}", draw.key));
                }
                if draw.intended.is_some() && draw.intended != Some(draw.result) {
                    problem.get_or_insert(format!("the sampler returned {} for a variate pinned to {:?} over {:?}", draw.result, draw.intended, draw.weights));
                }
                if compare_draws {
                    match want_draws.get(&draw.key) {
                        None => {
                            problem.get_or_insert(format!("a draw at {:?} which the one-thread run does not make", draw.key));
                        }
                        Some((weights, _)) => {
                            if weights.len() != draw.weights.len() || weights.iter().zip(draw.weights.iter()).any(|(a, b)| !close(*a, *b, tol)) {
                                problem.get_or_insert(format!("at {:?} the sampler was given {:?}, in the one-thread run {:?}", draw.key, draw.weights, weights));
                            }
                        }
                    }
                }
            }
            if compare_draws && problem.is_none() {
                if let Some(missing) = want_draws.keys().find(|k| !seen.contains(k)) {
                    problem = Some(format!("no draw at {:?}, which the one-thread run makes", missing));
                }
            }
            if let Some(msg) = problem {
                stats.draw_problems += 1;
                stats.first_draw_problem.get_or_insert(msg);
            }
        }
    };

    Prepared {
        body: Arc::new(body),
        stats,
        bounds: case["preemption_bounds"].clone(),
        max_perms,
        max_secs,
    }
}

fn main() {
    let stdin = std::io::stdin();
    let stdout = std::io::stdout();
    for (ind, line) in stdin.lock().lines().enumerate() {
        let line = line.expect("stdin");
        if line.trim().is_empty() {
            continue;
        }
        let case: Value = serde_json::from_str(&line).expect("case json");
        let id = case["id"].as_u64().unwrap_or(ind as u64);
        {
            let mut out = stdout.lock();
            writeln!(out, "START {}", id).unwrap();
            out.flush().unwrap();
        }
        let res = run_case(&case);
        let mut out = stdout.lock();
        writeln!(out, "RESULT {} {}", id, res).unwrap();
        out.flush().unwrap();
    }
}
