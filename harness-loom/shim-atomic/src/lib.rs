//! loom-visible stand-in for `portable_atomic::AtomicF64`.
//!
//! The value is a plain f64 next to a loom `AtomicUsize` "point". Every operation first performs a
//! loom atomic operation on the point (which is a scheduling point and carries loom's
//! happens-before bookkeeping) and then touches the f64. loom switches threads only at loom
//! operations, so point-then-value is one indivisible step: exactly the semantics of an atomic
//! read-modify-write (or load / store) on the real type. `load` and `store` exist so that a change
//! that replaces `fetch_add` by load-then-store still compiles here and shows up as a lost update.
use loom::sync::atomic::AtomicUsize;
use std::cell::UnsafeCell;
pub use std::sync::atomic::Ordering;
use std::sync::atomic::{AtomicU64, Ordering::Relaxed};

/// number of atomic operations executed (all executions)
pub static OPS: AtomicU64 = AtomicU64::new(0);

#[derive(Debug)]
pub struct AtomicF64 {
    point: AtomicUsize,
    val: UnsafeCell<f64>,
}

unsafe impl Sync for AtomicF64 {}
unsafe impl Send for AtomicF64 {}

impl AtomicF64 {
    pub fn new(val: f64) -> Self {
        AtomicF64 {
            point: AtomicUsize::new(0),
            val: UnsafeCell::new(val),
        }
    }

    pub fn get_mut(&mut self) -> &mut f64 {
        self.val.get_mut()
    }

    pub fn into_inner(self) -> f64 {
        self.val.into_inner()
    }

    pub fn fetch_add(&self, val: f64, order: Ordering) -> f64 {
        OPS.fetch_add(1, Relaxed);
        self.point.fetch_add(1, order);
        unsafe {
            let ptr = self.val.get();
            let old = *ptr;
            *ptr = old + val;
            old
        }
    }

    pub fn fetch_sub(&self, val: f64, order: Ordering) -> f64 {
        OPS.fetch_add(1, Relaxed);
        self.point.fetch_add(1, order);
        unsafe {
            let ptr = self.val.get();
            let old = *ptr;
            *ptr = old - val;
            old
        }
    }

    pub fn load(&self, order: Ordering) -> f64 {
        OPS.fetch_add(1, Relaxed);
        self.point.load(order);
        unsafe { *self.val.get() }
    }

    pub fn store(&self, val: f64, order: Ordering) {
        OPS.fetch_add(1, Relaxed);
        // a store is a write to the point as far as loom's dependency tracking is concerned
        self.point.fetch_add(1, match order {
            Ordering::Relaxed => Ordering::Relaxed,
            _ => Ordering::AcqRel,
        });
        unsafe { *self.val.get() = val }
    }

    pub fn swap(&self, val: f64, order: Ordering) -> f64 {
        OPS.fetch_add(1, Relaxed);
        self.point.fetch_add(1, order);
        unsafe {
            let ptr = self.val.get();
            let old = *ptr;
            *ptr = val;
            old
        }
    }

    pub fn fetch_max(&self, val: f64, order: Ordering) -> f64 {
        OPS.fetch_add(1, Relaxed);
        self.point.fetch_add(1, order);
        unsafe {
            let ptr = self.val.get();
            let old = *ptr;
            *ptr = old.max(val);
            old
        }
    }

    pub fn fetch_update<F: FnMut(f64) -> Option<f64>>(&self, set: Ordering, _fetch: Ordering, mut func: F) -> Result<f64, f64> {
        OPS.fetch_add(1, Relaxed);
        self.point.fetch_add(1, set);
        unsafe {
            let ptr = self.val.get();
            let old = *ptr;
            match func(old) {
                Some(new) => {
                    *ptr = new;
                    Ok(old)
                }
                None => Err(old),
            }
        }
    }
}
