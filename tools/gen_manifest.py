#!/usr/bin/env python3
"""Generates /verif/MANIFEST.json from the table below (single source of truth for the interface)."""
import json, subprocess, os
ROOT = os.path.dirname(os.path.dirname(os.path.abspath(__file__)))

HOOK_COMMITS = ["978c530", "5196148", "acf15cd"]

# id -> (engine, technique, level text, level note, design ref)
CHECKS = {
 "C01": ("E-INPUT", "bounded-exhaustive enumeration of games x profiles on the real evaluator vs an independent brute-force reference model",
         "Every valid game tree of a bounded grammar (<=3 internal nodes quick / <=4 thorough, arity <=3, all infoset partitions, shared chance infosets, degenerate nodes, payoff alphabets) x every profile of a per-infoset probability grid is replayed through Game::from_root / from_named / get_info and compared with a recursive expectation and a brute-force best response over all pure strategies. Exhaustive within the stated bounds; says nothing about larger trees or values outside the alphabets.",
         "Trusted: the reference evaluator in harness/src/refmodel.rs (exponential, no shared code). Small-scope hypothesis for trees beyond the bounds.", "5 C01"),
 "C08": ("E-INPUT x E-CHOICE", "exhaustive enumeration of games x parameter tuples x budgets and of all sampling-decision histories (stateless DFS over the two draw sites), real solver vs executable textbook specification under the same decisions",
         "Each (game, method, parameter tuple, budget, draw history) case runs the real solver with its random generator scripted through the sampling hook and the textbook discounted-CFR reference under the same decisions; strategies, draw sites and the distributions handed to the sampler are compared. All histories are enumerated up to 3 (chance-sampled) / 2 (external) iterations; longer budgets use hash-pinned histories (labelled as a finite selection).",
         "Trusted: harness/src/refcfr.rs as the specification; rand/rand_distr internals only for turning a chosen outcome into generator words (a wrong word makes the production sampler return another index, which is reported). Ties/near-zero regret sums are discontinuities: differing runs there are counted, not judged.", "5 C08"),
 "C05": ("E-INPUT x E-CHOICE", "bounded-exhaustive enumeration of games x methods x the full parameter alphabet x budgets x thresholds x thread counts, plus every sampling-decision history of the short budgets on the fallback extremes; oracle = well-formedness of what is returned, no panic / error / hang",
         "Every (game, method, parameter tuple incl. +-inf / 0 / |1e3| exponents, presets and None, budget incl. 0, threshold incl. negative / +inf / NaN, thread count incl. 0, > nodes and the usize::MAX/3 overflow boundary) case runs the real solver inside catch_unwind under a watchdog; the returned profile is read through as_named, the dense vector and get_info. For budgets <= 3 (chance-sampled) / 2 (external) every draw history is enumerated, so the arg-max / partial_cmp paths are covered under every history.",
         "Actually spawning usize::MAX/3 OS threads is environment behaviour and not explored. Schedules of the multi-threaded runs here are whatever the pool produces (exhaustive schedule exploration is C06/C07's loom harness).", "5 C05"),
 "C09": ("E-INPUT x E-CHOICE", "transition-system enumeration: prefix runs solve(t,0), t=0..N, are the states; every thresholded run solve(N,r), r below/at/above every bound value of the run, must be bitwise the state at the first hit",
         "For every game x method (sampled ones under pinned draw histories) x preset x budget N <= 8 (12 thorough) x thresholds {-1,-0,0,NaN,+inf} u {prev(b_t), b_t, next(b_t)} for every bound b_t along the run, solve(N,r) is compared bitwise with the unthresholded prefix run at t* = first t with bound < r; both the single-threaded and the multi-threaded implementation (single-task frontier) are explored.",
         "Sampled methods are explored under one hash-pinned history per game (the claim relates prefixes of one run; C08 enumerates histories).", "5 C09"),
 "C10": ("E-INPUT x E-CHOICE", "exhaustive enumeration of weight vectors x uniform variates at and around every cumulative boundary for the categorical sampler; exhaustive alias-table reconstruction by a scripted generator; every draw of every enumerated history checked against the declared distributions",
         "(a) the private categorical sampler is called (hook) on every weight vector with denominators 8 of length <= 4 and every variate at, just below, just above every cumulative boundary and mid-interval; (b) the production alias sampler of every chance infoset is reconstructed column by column with a scripted generator and must realise the declared weights; (c) on every enumerated draw history of every game the draw log must show one draw per (infoset, pass) with exactly the declared chance weights / the opponent's current strategy, no draws for the unsampled method and no player draws for the chance-sampled one.",
         "rand's Uniform / Standard float conversion is trusted only to the extent that a scripted word reproduces the intended variate, which the log cross-checks.", "5 C10"),
 "C11": ("E-INPUT", "bounded-exhaustive enumeration of valid and invalid trees (labellings, action-list variants, single and paired local corruptions) vs a reference validator",
         "Every raw tree shape within the bounds x every labelling over a sharing-forcing alphabet x chance labels x weights x action-list variants, plus every single (and on small shapes every pair of) local corruption, is passed to Game::from_root; Ok <=> the reference validator finds no violated rule, Err names a violated rule, never panics, accepted games survive evaluation and solving.",
         "Trusted: refmodel::ref_validate (textbook perfect recall over experience sequences). Weight sums that overflow and non-dyadic rescalings inside a shared chance infoset are outside the alphabet.", "5 C11"),
 "C13": ("E-INPUT", "bounded-exhaustive enumeration of games x strategies plus operation-sequence exploration of both iterators (every prefix, len/size_hint vs items that follow)",
         "For every valid skeleton and every strategy source (grid profiles, truncated profiles, solver output of each method) the named view is compared with the tree's own infoset list and the dense probabilities; len()/size_hint() are queried at every prefix of the outer and of each inner iterator; round trip through both import functions.",
         "Round trip compared within 8 ulps (re-normalising a sum that is 1-2e-16 moves entries by 2-3 ulps).", "5 C13"),
 "C14": ("E-INPUT", "bounded-exhaustive enumeration of candidate named strategies (orders, duplicates, illegal names, special weights) vs the statement transcribed; differential comparison of the two import paths",
         "Six games x both players x every candidate of <=2 (thorough 3) infoset entries x <=2 action entries over names/actions/weights alphabets incl. NaN, +-inf, -0, denormals, 1e300: from_named and from_named_eq must agree bitwise and match the reference import.",
         "A single-action infoset mentioned only with an empty action list is not settled by the statement: only the two paths are compared there.", "5 C14"),
 "C18": ("E-INPUT", "bounded-exhaustive enumeration of games x grid profiles x derived thresholds (below / at / just above / between every probability)",
         "Strategies::truncate on every enumerated (game, profile, threshold) is read back through as_named and compared clause by clause with the statement (survivors, proportional rescale, distribution even without survivors, idempotence, no change below all positives).",
         "Payoffs are irrelevant to truncate, so one payoff fill per skeleton.", "5 C18"),
 "C19": ("E-INPUT", "bounded-exhaustive enumeration of games x ordered pairs of grid profiles x exponents, plus the documented panic cases",
         "Strategies::distance on every ordered pair of grid profiles for p in {0.25,0.5,1,2,7.5,100}: range, NaN, zero iff equal, positive iff different, bitwise symmetry; panics exactly for non-positive p and different game objects.",
         "One open known finding (values above 1 for p<1) is listed in known_findings.json and printed as KNOWN-FINDING.", "5 C19"),
}

NOT_YET = {}  # id -> reason (filled below for properties without a check yet)

def main():
    props = [json.loads(l) for l in open(os.path.join(ROOT, "properties.jsonl"))]
    checks = []
    na = []
    for p in props:
        pid = p["id"]
        if pid in CHECKS:
            engine, technique, text, note, ref = CHECKS[pid]
            checks.append({
                "property_id": pid,
                "quick_cmd": "./check %s --tier quick" % pid,
                "thorough_cmd": "./check %s --tier thorough" % pid,
                "evidence_file": "/verif/evidence/%s.json" % pid,
                "replay_cmd_template": "./check %s --replay {path}" % pid,
                "engine": engine,
                "level_claimed": {"category": "model_checking", "text": text, "design_ref": "DESIGN.md section " + ref},
                "level_note": note,
                "technique": technique,
            })
        else:
            na.append({"property_id": pid, "reason": NOT_YET.get(pid, "check under construction in this round (designed in DESIGN.md section 5); not claimed until it runs clean")})
    manifest = {
        "version": 1,
        "setup_cmd": "./setup.sh",
        "hooks": {
            "guard": "--cfg erikbrinkman_cfr_verif (rustc cfg; nested cfg(loom) only inside guarded code)",
            "enable": "RUSTFLAGS='--cfg erikbrinkman_cfr_verif' (set in /verif/harness/.cargo/config.toml; the loom build adds --cfg loom and compiles /repo/src/lib.rs through /verif/harness-loom/cfr/Cargo.toml)",
            "baseline_off_cmd": "cd /repo && cargo test --workspace --no-fail-fast --offline",
            "source_commits": HOOK_COMMITS,
            "add_only": True,
        },
        "engines": [
            {"name": "E-INPUT", "path": "/verif/harness", "serves_properties": sorted(k for k,v in CHECKS.items() if "E-INPUT" in v[0]), "kind_free_text": "bounded-exhaustive input / operation-sequence exploration of the real library against independent reference models (Rust)"},
            {"name": "E-CHOICE", "path": "/verif/harness/src/explore.rs", "serves_properties": sorted(k for k,v in CHECKS.items() if "E-CHOICE" in v[0]), "kind_free_text": "stateless depth-first exploration of every sampling-decision history of the real solvers through a cfg-gated hook at the two draw sites"},
            {"name": "E-SCHED", "path": "/verif/harness-loom", "serves_properties": sorted(k for k,v in CHECKS.items() if "E-SCHED" in v[0]), "kind_free_text": "loom: every interleaving (DPOR, optional preemption bound) of the worker tasks of the real solve_*_multi functions"},
        ],
        "checks": checks,
        "not_applicable": na,
        "notes": "All checks: exit 0 = held on everything explored, exit 1 + VIOLATION line = violation, exit 2 = machinery failure (build error, explorer divergence). Known findings: /verif/known_findings.json.",
    }
    json.dump(manifest, open(os.path.join(ROOT, "MANIFEST.json"), "w"), indent=1)
    print("checks:", [c["property_id"] for c in checks], "not claimed:", [n["property_id"] for n in na])

main()
