#!/usr/bin/env python3
"""Generates /verif/MANIFEST.json from the table below (single source of truth for the interface)."""
import json, subprocess, os
ROOT = os.path.dirname(os.path.dirname(os.path.abspath(__file__)))

HOOK_COMMITS = ["978c530", "5196148", "acf15cd"]

# id -> (engine, technique, level text, level note, design ref)
CHECKS = {
 "C01": ("E-INPUT", "bounded-exhaustive enumeration of games x profiles (and of evaluate / clone / truncate operation sequences) on the real evaluator vs an independent brute-force reference model",
         "Every valid game tree of a bounded grammar (<=3 internal nodes quick / <=4 thorough, arity <=3, all infoset partitions, shared chance infosets, degenerate nodes, payoff alphabets; plus the binary 4-internal-node universe, curated families, chance nodes with weights near f64::MAX) x every profile of a per-infoset probability grid is replayed through Game::from_root / from_named / get_info and compared with a recursive expectation and a brute-force best response over all pure strategies; operation sequences (evaluate a, evaluate b, evaluate a, clone + truncate + evaluate, truncate in place + evaluate) must be exact at every step. Exhaustive within the stated bounds; says nothing about larger trees or values outside the alphabets.",
         "Trusted: the reference evaluator in harness/src/refmodel.rs (exponential, no shared code). Small-scope hypothesis for trees beyond the bounds.", "5 C01"),
 "C08": ("E-INPUT x E-CHOICE", "exhaustive enumeration of games x parameter tuples x budgets and of all sampling-decision histories (stateless DFS over the two draw sites), real solver vs executable textbook specification under the same decisions",
         "Each (game, method, parameter tuple, budget, draw history) case runs the real solver with its random generator scripted through the sampling hook and the textbook discounted-CFR reference under the same decisions; strategies, draw sites and the distributions handed to the sampler are compared. All histories are enumerated up to 3 (chance-sampled) / 2 (external) iterations; longer budgets use hash-pinned histories (labelled as a finite selection).",
         "Trusted: harness/src/refcfr.rs as the specification; rand/rand_distr internals only for turning a chosen outcome into generator words (a wrong word makes the production sampler return another index, which is reported). Ties/near-zero regret sums are discontinuities: differing runs there are counted, not judged.", "5 C08"),
 "C02": ("E-INPUT (+ E-SCHED by composition)", "bounded-exhaustive enumeration of games x budgets x thresholds (placed at / just above every bound of the run) x thread counts on the real unsampled solver; oracle = brute-force true regret of the returned profile",
         "Every valid game of the universe (three payoff fills) and the curated / collision families x budgets 1..50 (200 thorough) x thresholds {0} u {b_t, next(b_t)} at one thread, and thread counts {2,3,5,6,7,16} through a real pool on the families: max(b1,b2) >= true regret, b_i >= 0, an early stop implies true regret < r. The schedule clause is decided by composition with C06 (every task decomposition and every loom schedule returns the one-thread result within 1e-9, the slack used here).",
         "True regret = brute force over all pure strategies (refmodel); above 5000 pure strategies per player the implementation's evaluator, tied to the brute force by C01, is used and counted. Real-pool runs see whatever schedule the pool produced.", "5 C02"),
 "C03": ("E-INPUT", "transition-system enumeration: each (game, preset) is one deterministic trace of the real solver; the two envelopes of the statement are evaluated at every listed budget (state) of every trace",
         "Every valid game of the universe and every member of the adversarial families (deep chains, wide shared infosets, rare chance outcomes, dominated actions, k-ary trees, payoff ranges 2^-80 .. 2^40) x 5 presets x budgets 1..1000 (3000 on families; 30 000 / 300 000 thorough): vanilla per-player bound <= 2DN sqrt(A)/sqrt(T), true regret <= 6DN(sqrt(A)+1/sqrt(T))/sqrt(T), with D, N, A computed by the harness and the true regret by brute force. Thread counts 2 and 5 (real pool) on the families.",
         "The envelopes are loose on correct code (largest observed ratios are recorded in the evidence), so a slowly diverging solver inside the envelope is not noticed; budgets beyond the listed ones are not explored.", "5 C03"),
 "C04": ("E-CHOICE (+ a labelled finite selection)", "exhaustive enumeration of ALL sampling-decision histories with their exact probabilities (stateless DFS over the two draw sites of the real solvers): exact tail mass and expectation of the true regret per (game, method, preset, budget); plus hash-pinned long histories labelled as a finite selection",
         "(a) For every game with one or two decision infosets x {sampled, external} x presets x every budget of a ladder up to the horizon where the history count reaches the cap, every draw history is executed on the real solver with its exact probability: total mass 1, mass of true regret above D N sqrt(A)/sqrt(T) <= 0.05 (0.25 where the envelope is above half the payoff range), expectation <= envelope. (b) Families, collision games and the tiny universe x methods x 5 presets x {100, 3000} iterations x seeds of hash-pinned histories: no run above 3x the envelope, at most 2 % above 1x, collection median regret/D at 3000 below 1 % and below half its value at 100.",
         "The 'overwhelming probability' clause at budgets in the thousands is not decidable by bounded enumeration; it follows from C08 (every history computes the textbook iterate) + C10 (draws follow the declared distributions) + the published MCCFR theorem, and (a)+(b) are executable consequences. (b) samples histories and says so (exhaustive: false for that part).", "5 C04"),
 "C06": ("E-SCHED x E-INPUT", "loom: exhaustive exploration (DPOR; preemption-bounded above two concurrent tasks) of every interleaving of the worker tasks of the real solve_full_multi, plus exhaustive enumeration of every task decomposition (task targets 1..12) with the batches sequentialised, plus real-pool runs",
         "Layer 1a: every valid game x presets x budgets x thresholds x every task target 1..=12, executed by the loom workers with every batch sequentialised: the frontier split, the payoff cache and all state kept between iterations, deterministically. Layer 1b: real rayon pool through the public entry point (threads 2..16) on the families large enough to split. Layer 2: every interleaving (loom) of the tasks of every (small game | collision game, task target) case: unbounded DPOR for two tasks, preemption bound 2/1 (3/2 thorough) for three / four. Oracle: strategies and bounds within 1e-9 of the one-thread run; no panic, error, deadlock.",
         "The loom build compiles /repo/src/lib.rs against shims: rayon (one loom thread per task; par_iter_mut over exclusive items sequential), portable-atomic AtomicF64 (loom atomic point + f64), loom Mutex with an extra scheduling point inside the critical section; loom 0.7.2 vendored with MAX_THREADS 12. Not modelled: rayon internals, weak-memory effects on values. Runs where the specification reports a tie / near-zero regret sum are counted, not judged.", "5 C06"),
 "C07": ("E-CHOICE x E-SCHED", "every sampling-decision history enumerated on the one-thread solver (stateless DFS) pins the real multi-threaded solver by draw key; loom then explores every interleaving of its worker tasks, and every task decomposition is enumerated with sequentialised batches",
         "For every game x {sampled, external} x presets x budgets, every draw history (up to a cap) is enumerated; each pins (1a) the multi-threaded solver under every task target 1..=12 (decomposition mode), (1b) the real pool through the public entry point on large families (hash-pinned), (2) the solver under loom for every schedule of the small universe and the collision games. Oracle: same strategies / bounds within 1e-9, the same draw keys with the same distributions, at most one draw per (infoset, pass), no panic (no two workers in one infoset), error or deadlock.",
         "Same shims as C06. Which worker arrives first at a shared infoset is explored; the value it draws is pinned by key. History enumerations beyond the cap are cut and counted.", "5 C07"),
 "C12": ("E-INPUT", "bounded-exhaustive enumeration of alternative presentations ('programs') of every game: every single-site and all-sites application of each transformation, each built, evaluated and solved by the real library and mapped back",
         "Every valid game x {chance rescaling x2, x1/2 per node and x3 per infoset; insertion of single-outcome chance nodes (unlabelled, fresh label, shared label) and single-action decision nodes of either player (fresh / reused label) above any node or all nodes; removal of all single-child nodes; two injective renamings (one order-reversing); payoffs x {2, 1/2, 3, 2^-70, 2^40}; payoffs + {1, -2.5}; player swap with negation} x (every coarse-grid profile for evaluation + presets x budgets {1,2,5,20} for the deterministic solver): bitwise equality where the same arithmetic is performed, 1e-9 otherwise.",
         "Parameter sets are the documented presets (a finite non-zero no_positive weight is scale dependent by definition). Solver comparisons in the 1e-9 regime are not judged where the specification reports a tie / near-zero regret sum.", "5 C12"),
 "C15": ("E-INPUT (CLI)", "bounded-exhaustive enumeration of generated game files (JSON + ten Gambit styles, generated FROM file-level reference models) x option combinations on the real binary; printed strategies re-evaluated by an independent evaluator",
         "Files of the tiny universe and curated families in JSON and Gambit (constant sums 0/2/-3, interior payoffs, outcomes shared by number, unnamed infosets, reduced / unreduced fractions, reversed action lists, names shared across players) x {full, sampled, external} x 5 discounts x budgets {1,50} x parallel {1,2} x clip {0,0.3}: exit 0, one JSON object, valid behavioural strategies over the file's names, printed utilities / regrets equal the brute-force evaluation of the PRINTED strategies on the file's own payoffs, u1+u2 = constant, regret = max.",
         "The quick tier runs a rotating fraction of the option product per file. Gambit constructs the generator does not emit (omitted action lists, comments) and duplicate JSON keys are not covered.", "5 C15"),
 "C16": ("E-INPUT (CLI)", "exhaustive enumeration of the option lattice (discount x max-iters x max-regret x parallel x clip x input route x output destination) per game file on the real binary, compared with the in-process library solve",
         "Per file (JSON, Gambit constant 0 and 2) the lattice 5 x 2 x 2 x 2 x 3 x 6 routes x 2 destinations with the deterministic method: printed strategies equal the library's (bitwise for JSON at one thread, 1e-9 otherwise); the truncated profile is printed exactly when its reference regret is strictly lower; -o writes the file and nothing to stdout; JSON and Gambit encodings agree; chance-sampling on chance-free games equals the unsampled solver; max-iters 0 runs to the threshold; an omitted option means the default the help text shows.",
         "The quick tier runs a rotating sixth of the lattice per file. The external method is random on every game with an opponent decision: only option parsing / output validity (C15).", "5 C16"),
 "C17": ("E-INPUT (CLI)", "exhaustive enumeration of every single-edit corruption of every generated file at every node (fault enumeration over the input), each through four input routes, on the real binary",
         "JSON: every required field dropped / renamed / of the wrong type, probability 0 / -1, empty maps, truncation, trailing text, wrong format flag, contract violations. Gambit: 1 / 3 players, payoff just inside (must be accepted) and just outside the constant-sum tolerance, payoff too large for a double, probabilities not summing to one, unnamed-number clash, two same-named infosets of one player, differing action lists, truncation, wrong flag, contract violations. Oracle: non-zero exit, empty stdout, no output file, a fitting diagnostic category on stderr.",
         "Acceptable diagnostics are sets (auto-detection may answer with its own message). Duplicate JSON keys and unknown extra fields are not corruptions in the sense of the statement.", "5 C17"),
 "C05": ("E-INPUT x E-CHOICE x E-SCHED", "bounded-exhaustive enumeration of games x methods x the full parameter alphabet x budgets x thresholds x thread counts, every sampling-decision history of the short budgets on the fallback extremes, and (loom) every interleaving of the worker tasks of all three multi-threaded solvers on collision games; oracle = well-formedness of what is returned, no panic / error / hang / deadlock",
         "Every (game, method, parameter tuple incl. +-inf / 0 / |1e3| exponents, presets and None, budget incl. 0, threshold incl. negative / +inf / NaN, thread count incl. 0, > nodes and the usize::MAX/3 overflow boundary) case runs the real solver inside catch_unwind under a watchdog; the returned profile is read through as_named, the dense vector and get_info. For budgets <= 3 (chance-sampled) / 2 (external) every draw history is enumerated, so the arg-max / partial_cmp paths are covered under every history. Ladders with tiny own reach x extreme exponents cover denormal normalisers. Under loom every schedule of the collision games (incl. a lock-order inversion game) is explored for panic, error and deadlock.",
         "Actually spawning usize::MAX/3 OS threads is environment behaviour and not explored. The real-pool runs see whatever schedule the pool produces; the loom layer is exhaustive for two concurrent tasks and preemption-bounded above (same shims as C06).", "5 C05"),
 "C09": ("E-INPUT x E-CHOICE", "transition-system enumeration: prefix runs solve(t,0), t=0..N, are the states; every thresholded run solve(N,r), r below/at/above every bound value of the run, must be bitwise the state at the first hit",
         "For every game x method (sampled ones under pinned draw histories) x preset x budget N <= 8 (12 thorough) x thresholds {-1,-0,0,NaN,+inf} u {prev(b_t), b_t, next(b_t)} for every bound b_t along the run, solve(N,r) is compared bitwise with the unthresholded prefix run at t* = first t with bound < r; both the single-threaded and the multi-threaded implementation (single-task frontier) are explored.",
         "Sampled methods are explored under one hash-pinned history per game (the claim relates prefixes of one run; C08 enumerates histories).", "5 C09"),
 "C10": ("E-INPUT x E-CHOICE", "exhaustive enumeration of weight vectors x uniform variates at and around every cumulative boundary for the categorical sampler; exhaustive alias-table reconstruction by a scripted generator; every draw of every enumerated history checked against the declared distributions",
         "(a) the private categorical sampler is called (hook) on every weight vector with denominators 8 of length <= 4 and every variate at, just below, just above every cumulative boundary and mid-interval; (b) the production alias sampler of every chance infoset is reconstructed column by column with a scripted generator and must realise the declared weights; (c) on every enumerated draw history of every game the draw log must show one draw per (infoset, pass) with exactly the declared chance weights / the opponent's current strategy, no draws for the unsampled method and no player draws for the chance-sampled one.",
         "rand's Uniform / Standard float conversion is trusted only to the extent that a scripted word reproduces the intended variate, which the log cross-checks.", "5 C10"),
 "C11": ("E-INPUT", "bounded-exhaustive enumeration of valid and invalid trees (labellings, action-list variants, single and paired local corruptions) vs a reference validator",
         "Every raw tree shape within the bounds x every labelling over a sharing-forcing alphabet x chance labels x weights x action-list variants, plus every single (and on small shapes every pair of) local corruption (weights 0, -1, NaN, inf, 1e308), the binary 4-internal-node unfiltered universe and named witnesses, is passed to Game::from_root; Ok <=> the reference validator finds no violated rule, Err names a violated rule, never panics, accepted games survive evaluation and solving.",
         "Trusted: refmodel::ref_validate (textbook perfect recall over experience sequences). Weight sums that overflow and non-dyadic rescalings inside a shared chance infoset are outside the alphabet.", "5 C11"),
 "C13": ("E-INPUT", "bounded-exhaustive enumeration of games x strategies plus operation-sequence exploration of both iterators (every prefix, len/size_hint vs items that follow)",
         "For every valid skeleton and every strategy source (grid profiles, truncated profiles, solver output of each method) the named view is compared with the tree's own infoset list and the dense probabilities; len()/size_hint() are queried at every prefix of the outer and of each inner iterator; round trip through both import functions.",
         "Round trip compared within 8 ulps (re-normalising a sum that is 1-2e-16 moves entries by 2-3 ulps).", "5 C13"),
 "C14": ("E-INPUT", "bounded-exhaustive enumeration of candidate named strategies (orders, duplicates, illegal names, special weights) vs the statement transcribed; differential comparison of the two import paths",
         "Six games x both players x every candidate of <=2 (thorough 3) infoset entries x <=2 action entries over names/actions/weights alphabets incl. NaN, +-inf, -0, denormals, 1e300: from_named and from_named_eq must agree bitwise and match the reference import.",
         "A single-action infoset mentioned only with an empty action list is not settled by the statement: only the two paths are compared there.", "5 C14"),
 "C18": ("E-INPUT", "bounded-exhaustive enumeration of games x grid profiles x derived thresholds (below / at / just above / between every probability)",
         "Strategies::truncate on every enumerated (game, profile, threshold) is read back through as_named and compared clause by clause with the statement (survivors, proportional rescale, distribution even without survivors, idempotence, no change below all positives); wide infosets (2..24 actions, non-dyadic); two-call sequences against the statement applied twice; and an explicit-state search of the Strategies object (truncate / re-import / clone, depth 3) in which the object must hold the model's state at every reachable state.",
         "Payoffs are irrelevant to truncate, so one payoff fill per skeleton.", "5 C18"),
 "C19": ("E-INPUT", "bounded-exhaustive enumeration of games x ordered pairs of grid profiles x exponents, plus the documented panic cases",
         "Strategies::distance on every ordered pair of grid profiles for p in {0.25,0.5,1,2,7.5,100}: range, NaN, zero iff equal, positive iff different, bitwise symmetry; panics exactly for non-positive p and different game objects.",
         "One open known finding (values above 1 for p<1) is listed in known_findings.json and printed as KNOWN-FINDING.", "5 C19"),
}

NOT_YET = {}  # id -> reason (filled below for properties without a check yet)

def main():
    props = [json.loads(l) for l in open(os.path.join(ROOT, "properties.jsonl"))]
    checks = []
    na = []
    for p in props:
        pid = p["id"]
        if pid in CHECKS:
            engine, technique, text, note, ref = CHECKS[pid]
            checks.append({
                "property_id": pid,
                "quick_cmd": "./check %s --tier quick" % pid,
                "thorough_cmd": "./check %s --tier thorough" % pid,
                "evidence_file": "/verif/evidence/%s.json" % pid,
                "replay_cmd_template": "./check %s --replay {path}" % pid,
                "engine": engine,
                "level_claimed": {"category": "model_checking", "text": text, "design_ref": "DESIGN.md section " + ref},
                "level_note": note,
                "technique": technique,
            })
        else:
            na.append({"property_id": pid, "reason": NOT_YET.get(pid, "check under construction in this round (designed in DESIGN.md section 5); not claimed until it runs clean")})
    manifest = {
        "version": 1,
        "setup_cmd": "./setup.sh",
        "hooks": {
            "guard": "--cfg erikbrinkman_cfr_verif (rustc cfg; nested cfg(loom) only inside guarded code)",
            "enable": "RUSTFLAGS='--cfg erikbrinkman_cfr_verif' (set in /verif/harness/.cargo/config.toml; the loom build adds --cfg loom and compiles /repo/src/lib.rs through /verif/harness-loom/cfr/Cargo.toml; the CLI is built from /repo with the same flag into /verif/target/cli)",
            "baseline_off_cmd": "cd /repo && cargo test --workspace --no-fail-fast --offline",
            "source_commits": HOOK_COMMITS,
            "add_only": True,
        },
        "engines": [
            {"name": "E-INPUT", "path": "/verif/harness", "serves_properties": sorted(k for k,v in CHECKS.items() if "E-INPUT" in v[0]), "kind_free_text": "bounded-exhaustive input / operation-sequence exploration of the real library against independent reference models (Rust)"},
            {"name": "E-CHOICE", "path": "/verif/harness/src/explore.rs", "serves_properties": sorted(k for k,v in CHECKS.items() if "E-CHOICE" in v[0]), "kind_free_text": "stateless depth-first exploration of every sampling-decision history of the real solvers through a cfg-gated hook at the two draw sites"},
            {"name": "E-SCHED", "path": "/verif/harness-loom", "serves_properties": sorted(k for k,v in CHECKS.items() if "E-SCHED" in v[0]), "kind_free_text": "loom: every interleaving (DPOR, optional preemption bound) of the worker tasks of the real solve_*_multi functions, compiled from /repo against rayon / atomic / mutex shims; also runs every task decomposition with sequentialised batches"},
        ],
        "checks": checks,
        "not_applicable": na,
        "notes": "All checks: exit 0 = held on everything explored, exit 1 + VIOLATION line = violation, exit 2 = machinery failure (build error, explorer divergence). Known findings: /verif/known_findings.json.",
    }
    json.dump(manifest, open(os.path.join(ROOT, "MANIFEST.json"), "w"), indent=1)
    print("checks:", [c["property_id"] for c in checks], "not claimed:", [n["property_id"] for n in na])

main()
