#!/bin/bash
# usage: tools/seed_matrix.sh <out file> <seed id>:<check,check,...> ...
# Applies each seeded patch to /repo's working tree, runs the listed checks (quick tier, evidence
# and replays under /tmp/mutant_out), records exit codes and violation classes, restores the tree.
OUT=$1; shift
: > "$OUT"
for spec in "$@"; do
  id=${spec%%:*}; checks=${spec#*:}
  cd /repo || exit 2
  if [ -n "$(git status --porcelain)" ]; then echo "repo not clean" >> "$OUT"; exit 2; fi
  if ! git apply /verif/seeded/$id/patch.diff 2>/dev/null; then echo "$id: patch does not apply" >> "$OUT"; continue; fi
  for C in ${checks//,/ }; do
    rm -rf /tmp/mutant_out; mkdir -p /tmp/mutant_out
    START=$(date +%s)
    RES=$(cd /verif && VERIF_ROOT=/tmp/mutant_out timeout 1800 ./check "$C" --tier quick 2>&1)
    CODE=$?
    echo "$id $C exit=$CODE secs=$(( $(date +%s) - START )) violations=$(echo "$RES" | grep -c '^VIOLATION') classes=[$(echo "$RES" | grep 'violation class' | sed 's/ *violation class //' | tr '\n' ';')] notes=[$(echo "$RES" | grep -E '^MACHINERY|^NOTE' | head -2 | tr '\n' ';')]" >> "$OUT"
  done
  git checkout -- .
done
rm -rf /tmp/mutant_out
echo DONE >> "$OUT"
