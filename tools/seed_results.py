#!/usr/bin/env python3
"""Turns seed-matrix output (tools/seed_matrix.sh) into seeded/RESULTS.md, fills the table of
DESIGN.md section 8 and the detected_by field of every seeded/<id>/meta.json."""
import json, re, sys, os
ROOT = os.path.dirname(os.path.dirname(os.path.abspath(__file__)))
rows = {}
for path in sys.argv[1:]:
    for line in open(path):
        m = re.match(r'(C\d+-\d) (C\d+) exit=(\d+) secs=(\d+) violations=(\d+) classes=\[(.*?)\] notes=\[(.*?)\]', line)
        if m:
            rows.setdefault(m.group(1), {})[m.group(2)] = dict(exit=int(m.group(3)), secs=int(m.group(4)), classes=m.group(6), notes=m.group(7))
short = {}
for sid in sorted(rows):
    notes = open(os.path.join(ROOT, 'seeded', sid, 'notes_from_author.md')).read()
    meta = json.load(open(os.path.join(ROOT, 'seeded', sid, 'meta.json')))
    short[sid] = meta
out = ["# Seeded changes x checks (quick tier)", "",
       "Each row: the seeded change applied to /repo's working tree (`git apply seeded/<id>/patch.diff`), the check run with",
       "`VERIF_ROOT=/tmp/mutant_out ./check <Cxx> --tier quick`, the tree restored (`git checkout -- .`). exit 1 = VIOLATION reported.", "",
       "| seed | breaks | check | exit | seconds | violation classes |", "|---|---|---|---|---|---|"]
table = ["| seed | what it changes (author's words, abridged) | caught by (quick tier) | not caught by |", "|---|---|---|---|"]
for sid in sorted(rows):
    caught = [c for c, r in rows[sid].items() if r['exit'] == 1]
    missed = [c for c, r in rows[sid].items() if r['exit'] == 0]
    broken = [c for c, r in rows[sid].items() if r['exit'] not in (0, 1)]
    for c, r in sorted(rows[sid].items()):
        out.append("| %s | %s | %s | %d | %d | %s %s |" % (sid, sid.split('-')[0], c, r['exit'], r['secs'], r['classes'], r['notes']))
    meta = short[sid]
    meta['detected_by'] = {"caught_by": caught, "not_caught_by": missed, "machinery_failure": broken, "tier": "quick"}
    json.dump(meta, open(os.path.join(ROOT, 'seeded', sid, 'meta.json'), 'w'), indent=1)
    what = meta.get('summary', '')
    table.append("| %s | %s | %s | %s |" % (sid, what, ", ".join("**%s**" % c if c == sid.split('-')[0] else c for c in caught) or "—", ", ".join(missed + ["%s (exit 2)" % b for b in broken]) or "—"))
open(os.path.join(ROOT, 'seeded', 'RESULTS.md'), 'w').write("\n".join(out) + "\n")
design = open(os.path.join(ROOT, 'DESIGN.md')).read()
start = design.find('SEED_TABLE')
if start >= 0:
    design = design.replace('SEED_TABLE', "<!-- seed table begin -->\n" + "\n".join(table) + "\n<!-- seed table end -->")
else:
    a = design.find('<!-- seed table begin -->'); b = design.find('<!-- seed table end -->')
    if a >= 0 and b >= 0:
        design = design[:a] + "<!-- seed table begin -->\n" + "\n".join(table) + "\n" + design[b:]
open(os.path.join(ROOT, 'DESIGN.md'), 'w').write(design)
own = sum(1 for sid in rows if sid.split('-')[0] in [c for c, r in rows[sid].items() if r['exit'] == 1])
anyc = sum(1 for sid in rows if any(r['exit'] == 1 for r in rows[sid].values()))
print("seeds:", len(rows), "caught by the check of their own property:", own, "caught by some check:", anyc)
