#!/bin/bash
# usage: tools/try_patch.sh <patch file | "revert:<commit>"> <check ids...>   [TIER=quick|thorough]
# Applies a patch to /repo's working tree (or reverts a commit in the working tree only), runs the
# given checks writing evidence/replays under /tmp/mutant_out (never /verif/evidence), prints their
# verdicts, and restores the working tree. Never commits anything in /repo.
set -u
PATCH=$1; shift
cd /repo || exit 2
if [ -n "$(git status --porcelain)" ]; then echo "repo not clean"; exit 2; fi
case "$PATCH" in
  revert:*) git revert --no-commit "${PATCH#revert:}" >/dev/null 2>&1 && git reset -q || { echo "revert failed"; git revert --abort 2>/dev/null; git checkout -- .; exit 2; } ;;
  *) git apply "$PATCH" || { echo "patch does not apply"; git checkout -- .; exit 2; } ;;
esac
git --no-pager diff --stat | tail -1
rm -rf /tmp/mutant_out; mkdir -p /tmp/mutant_out
for C in "$@"; do
  START=$(date +%s)
  OUT=$(cd /verif && VERIF_ROOT=/tmp/mutant_out timeout 1800 ./check "$C" --tier "${TIER:-quick}" 2>&1)
  CODE=$?
  echo "== $C exit=$CODE ($(( $(date +%s) - START ))s) :: $(echo "$OUT" | grep -c '^VIOLATION') violation lines; $(echo "$OUT" | grep 'violation class' | tr -s ' ' | tr '\n' ';')"
  echo "$OUT" | grep -A1 '^VIOLATION' | grep 'class=' | head -${SHOW:-2} | cut -c1-600
  echo "$OUT" | grep -E '^MACHINERY|^NOTE' | head -3
done
git checkout -- . ; git status --porcelain | head -3
rm -rf /tmp/mutant_out
