#!/bin/bash
# usage: tools/try_mutant.sh <file under /repo> <python regex old> <new> <check ids...>
# Applies a one-line textual mutation to /repo's working tree, runs the given checks (quick tier),
# prints their verdicts, and restores the working tree. Never commits anything in /repo.
set -u
FILE=$1; OLD=$2; NEW=$3; shift 3
cd /repo || exit 2
if [ -n "$(git status --porcelain)" ]; then echo "repo not clean"; exit 2; fi
python3 - "$FILE" "$OLD" "$NEW" <<'PY'
import sys
p,old,new=sys.argv[1:4]
s=open(p).read()
n=s.count(old)
if n<1: print("pattern not found"); sys.exit(3)
open(p,'w').write(s.replace(old,new,1))
PY
[ $? -eq 0 ] || { git checkout -- .; exit 2; }
git --no-pager diff --stat | tail -1
for C in "$@"; do
  OUT=$(cd /verif && VERIF_ROOT=/tmp/mutant_out timeout 900 ./check "$C" 2>&1)
  CODE=$?
  echo "== $C exit=$CODE :: $(echo "$OUT" | grep -c '^VIOLATION') violation lines; classes: $(echo "$OUT" | grep 'violation class' | tr -s ' ' | tr '\n' ';')"
done
git checkout -- .
